#!/usr/bin/env python3
"""Regenerates /verif/MANIFEST.json from the table below and validates it."""
import json, os, subprocess, sys
ROOT = os.path.dirname(os.path.dirname(os.path.abspath(__file__)))

HOOK_COMMITS = subprocess.run(
    ["git", "-C", "/repo", "log", "--format=%H %s", "--grep=^verif hooks"], capture_output=True, text=True
).stdout.strip().splitlines()

# id -> (engine, category, technique, level text, level note, design ref)
T_DIFF = "runtime differential monitor"
CHECKS = {
    "C01": ("emit-run", "exploration",
            "runtime monitoring of compiled emitted parsers: outcome of every execution vs reference recognisers (canonical LR(1), chart, Earley)",
            "Each accepted grammar is emitted, compiled with rustc and executed on hundreds of inputs (exhaustive short strings, random sentences, prefix-extension sweep, edits, long inputs); Ok/Err of every execution is compared with membership decided by three independent reference recognisers that must agree; panics, aborts and exhausted CPU budgets of the child are refuting events; every input runs under two payload schemes.",
            "Trusts rustc/std and harness/src/{lr,chart}.rs; inputs are bounded (<= ~6000 tokens, grammars <= ~8 nonterminals); termination judged by CPU budget of the child.", "5 (C01)"),
    "C02": ("emit-run", "exploration",
            "runtime monitoring of compiled emitted parsers: {:?} of the returned tree vs rendered reference derivation",
            "For every accepted input the tree returned by the compiled parser, printed through derive(Debug), is compared with the reference derivation (validated by a definitional derivation checker) rendered with the payload built for each input position.",
            "Trusts rustc/std (derive(Debug) format) and harness/src/lr.rs; payloads of type () are indistinguishable by construction.", "5 (C02)"),
    "C03": ("emit-run", "exploration",
            "runtime monitoring of compiled emitted parsers: returned error token and iterator pull count vs canonical LR(1) error index",
            "For every rejected input the returned token (kind and position payload) and the number of items pulled from a lazy counting iterator are compared with the index where the canonical LR(1) parser stops (cross-checked by Earley's longest viable prefix when all nonterminals are productive); three iterator flavours.",
            "Trusts harness/src/{lr,chart}.rs; pulls after the iterator returned None are not constrained.", "5 (C03)"),
    "C04": ("lalr-diff", "exploration",
            "runtime differential monitor: kiki::generate vs reference LALR(1) construction over generated grammars",
            "Every generated grammar is run through the real generate(); the Ok/TableConflict outcome is compared with conflict-freeness of an independent LALR(1) automaton (canonical LR(1) merged by core). Held = no disagreement on the grammars explored (corpus, random, families per class, complete small scope in the thorough tier).",
            "Trusts the reference construction in harness/src/lr.rs and rustc/std; grammars larger than the generator bounds are not observed.", "5 (C04)"),
    "C05": ("compile", "exploration",
            "runtime monitoring under rustc: emitted modules for adversarially named grammars must compile; payload types carry no trait",
            "Every helper name the emitter uses (and its uniquified forms, letter-less names, the emitter's locals as field names) is placed alone in every role and in random mixes; payload types are bare structs without derives; each emitted module is compiled with rustc --emit=metadata. One recorded emitter limitation (variant named `Error`) is a KNOWN-FINDING keyed on structural condition + rustc diagnostic.",
            "rustc (stable, edition 2021) is the judge; names outside the pools are not tried.", "5 (C05)"),
    "C06": ("compile", "exploration",
            "runtime monitoring under rustc: emitted item shapes read token-wise + a generated client that must type-check",
            "For every accepted grammar the emitted pub enum/struct items and the parse signature are read token-wise and compared with the expected shape, and a client outside the module that constructs, destructures (no `..`), matches (no wildcard), ascribes field types, reads public fields and coerces parse to concrete fn types is type-checked with rustc.",
            "Trusts rustc and harness/src/{skim,shape}.rs (unreadable text is inconclusive).", "5 (C06)"),
    "C07": ("front", "exploration",
            "runtime monitoring with fault observation: generate under catch_unwind, H2 step-limit hooks, child-process abort and CPU-budget observation",
            "generate is called on ~450k hostile inputs per quick run (soups, every 1-2 atom string, edits and prefixes of valid files, files with injected violations, unusual well-formed grammars) with the H2 step limit armed, and on size/depth stress files in separate child processes in both the optimised and the dev-profile build (8 MiB stack, 8 GiB address space, CPU budget); panics, step-limit trips, signals and exhausted budgets are the refuting events.",
            "Termination is judged in logical steps (H2) and CPU time, never wall-clock; bounds as in the property (<= 64 KiB, <= 2000 declarations, nesting <= 256); stress sizes are limited so that the pinned tree needs < 1 min per file.", "5 (C07)"),
    "C08": ("front", "exploration",
            "runtime differential monitor: tokenizer tap + generate vs reference scanner R-lex on hostile strings",
            "Every string (all 1-2 atom strings, 3 in thorough, soups, edited valid files, prefixes, attribute and token soups) is tokenised by kiki (H1 tap) and by R-lex; tokens (kind, start, text) or the error (byte index, char) must be equal, and generate must return the same lexical error at the public boundary.",
            "R-lex (harness/src/rlex.rs) encodes the documented rules; strings up to 64 atoms.", "5 (C08)"),
    "C09": ("front", "exploration",
            "runtime differential monitor: generate vs the Kiki grammar as data under the reference LR(1) recogniser (+ predictive recogniser)",
            "Lexically valid texts (prefix-extension sweep over valid files with all 17 token kinds, token edits, random sentences of the Kiki grammar, token soups; random layout) are given to generate; accept / Parse(start,text,end) of the first token that cannot continue / empty span at the end must match the reference verdict; the two reference recognisers must agree.",
            "The 42-production grammar in harness/src/rkiki.rs is the published grammar; only texts that kiki tokenises like R-lex are judged (others are C08's).", "5 (C09)"),
    "C10": ("front", "exploration",
            "runtime differential monitor: generate vs R-validate (set of all static violations) on files with injected violations",
            "Syntactically valid files with 0-3 injected violations of every kind (incl. cross-namespace references) and random declarations over a tiny name pool are given to generate: Ok/TableConflict only if R-validate finds no violation, otherwise the reported variant, name / symbol sequence and every byte position must describe a violation really present.",
            "harness/src/rvalidate.rs encodes the rules of the property statement; any violation present may be the reported one.", "5 (C10)"),
    "C11": ("lalr-diff", "translation_validation",
            "runtime monitor over returned error values: each TableConflict payload validated against the reference automaton",
            "Each TableConflict error actually returned is validated on its own: state index in range, items in that state, the two items demand different actions on a common lookahead, attached automaton isomorphic (cores, lookaheads, transitions, start) to the reference LALR(1) automaton, attached grammar equal to the reference AST of the input text.",
            "Trusts harness/src/lr.rs, rlex.rs, rkiki.rs; only conflicting grammars produced by the generators are observed.", "5 (C11)"),
    "C12": ("text", "exploration",
            "runtime monitor over emitted text: attribute lines above each emitted type vs the attributes written (byte comparison, unique markers)",
            "Grammars with 0-4 hostile single-line attributes per declaration (nested brackets, quotes, //, CR, TAB, Unicode spaces, 2/3/4-byte characters, empty #[]) are generated; the lines immediately above each emitted pub struct/enum must be byte-for-byte the declaration's attributes in order and each marked attribute must occur exactly once in the emitted text.",
            "Locating `pub struct|enum <Name>` lines assumes type definitions start a line (unlocatable => inconclusive).", "5 (C12)"),
    "C13": ("text", "exploration",
            "runtime monitor over emitted text: payload types at every use site re-tokenised vs the declared token sequence",
            "Random payload types (unit, paths, generics nested to depth 8, written with random layout/comments) are compared token-for-token at every use site: terminal enum, every field of that terminal, node enum variant, try_into_* return type; the C06 client covers the compile level with real types.",
            "Trusts harness/src/{skim,shape}.rs; unreadable emitted text is inconclusive.", "5 (C13)"),
    "C14": ("text", "exploration",
            "runtime monitoring across hash seeds: repeated generate calls on fresh threads and in separate processes must return identical bytes",
            "Every input (all outcome classes) is run 8 times on fresh threads (fresh SipHash keys) and in 2 further processes; Ok bytes / error {:?} must be identical; a canary HashSet records the number of distinct hash orders actually sampled.",
            "Hash seeds are sampled, not controlled: detection per input is probabilistic.", "5 (C14)"),
    "C15": ("text", "exploration",
            "runtime differential monitor: emitted header and get_grammar_hash vs independent SHA-256 and the rule of the property statement",
            "For accepted sources the header must contain `// @sha256 ` + SHA-256(source) by an independent, self-tested implementation, get_grammar_hash must read it back, and the build-script freshness comparison must accept the same text and reject a one-byte change; for header-like arbitrary texts get_grammar_hash is compared with the rule as stated.",
            "Lines are str::lines() lines (LF or CRLF).", "5 (C15)"),
    "C16": ("text", "exploration",
            "runtime metamorphic monitor: generate(source) vs generate(re-layout) with positions mapped through the token-start map",
            "Sources of every class are re-laid-out up to 6 times (any Unicode whitespace, LF/CRLF, comments with arbitrary content, comment at EOF, one line) keeping the token sequence (re-checked with R-lex); Ok outputs must be identical outside the hash line and errors identical after mapping byte positions.",
            "R-lex decides what a token is; for lexically invalid sources only the text before the offending lexeme is re-laid-out.", "5 (C16)"),
    "C17": ("lalr-diff", "translation_validation",
            "per-program translation validation at run time: emitted ACTION/GOTO tables vs reference LALR(1) automaton",
            "For each accepted grammar the tables and start state are read back from the emitted text and compared cell by cell with the reference LALR(1) automaton under a state bijection established by a simultaneous walk (all states must be reached, error action everywhere else).",
            "Trusts the token-level reader of emitted text (harness/src/skim.rs; unreadable text is inconclusive, never a verdict) and harness/src/lr.rs.", "5 (C17)"),
    "C18": ("oset", "exploration",
            "runtime monitoring of operation histories vs a BTreeSet model, plus the H3 invariant hook under pipeline load",
            "Random histories (new, from_iter, insert, extend, clone, contains, comparisons) over 1-4 live sets and 7 element types incl. kiki's own are replayed on Oset and on BTreeSet; after every operation all iteration forms, contains, equality, history-independence of cmp and the order laws are checked; the H3 hook asserts strict ascent after every mutation inside real pipeline runs.",
            "std BTreeSet is the model; element types have lawful Ord.", "5 (C18)"),
}

NOT_YET = {
}

def main():
    props = [json.loads(l) for l in open(os.path.join(ROOT, "properties.jsonl"))]
    checks = []
    na = []
    for p in props:
        pid = p["id"]
        if pid in CHECKS:
            eng, cat, tech, text, note, ref = CHECKS[pid]
            checks.append({
                "property_id": pid,
                "quick_cmd": f"./check {pid} quick",
                "thorough_cmd": f"./check {pid} thorough",
                "evidence_file": f"/verif/evidence/{pid}.json",
                "replay_cmd_template": f"./check {pid} --replay {{path}}",
                "engine": eng,
                "level_claimed": {"category": cat, "text": text, "design_ref": f"DESIGN.md section {ref}"},
                "level_note": note,
                "technique": tech,
            })
        else:
            na.append({"property_id": pid, "reason": NOT_YET.get(pid, "monitor for this property is not built yet in this revision of /verif (work in progress; the technique applies, see DESIGN.md section 5)")})
    engines = {}
    for pid, c in CHECKS.items():
        engines.setdefault(c[0], []).append(pid)
    manifest = {
        "version": 1,
        "setup_cmd": "cd /verif/harness && CARGO_NET_OFFLINE=true cargo build --release --offline && CARGO_NET_OFFLINE=true cargo build --profile plain --offline && CARGO_NET_OFFLINE=true cargo build --offline --target-dir target-dev",
        "hooks": {
            "guard": "cargo feature `kiki_verif` of the kiki crate (off by default)",
            "enable": "the harness crate depends on kiki by path with features = [\"kiki_verif\"] (harness/Cargo.toml); every ./check rebuilds it from /repo's working tree",
            "baseline_off_cmd": "cd /repo && cargo test --workspace --no-fail-fast --offline",
            "source_commits": [l.split()[0] for l in HOOK_COMMITS],
            "add_only": True,
        },
        "engines": [
            {"name": n, "path": f"harness/src/engines/{n.replace('-', '_')}.rs", "serves_properties": sorted(ps),
             "kind_free_text": "runtime monitor: real code driven by generated workloads in sharded worker processes, observations checked against independent reference models"}
            for n, ps in sorted(engines.items())
        ],
        "checks": checks,
        "not_applicable": na,
        "notes": "All checks: ./check <ID> quick|thorough [VERIF_SEED=<n>]; exit 0 held / 1 VIOLATION / 2 inconclusive. Known findings: KNOWN_FINDINGS.txt. Design: DESIGN.md.",
    }
    if not na:
        del manifest["not_applicable"]
    path = os.path.join(ROOT, "MANIFEST.json")
    json.dump(manifest, open(path, "w"), indent=1)
    open(path, "a").write("\n")
    try:
        import jsonschema
        jsonschema.validate(manifest, json.load(open("/root/.vp/MANIFEST.schema.json")))
        print("MANIFEST.json valid;", len(checks), "checks,", len(na), "not claimed")
    except ImportError:
        print("jsonschema not available; MANIFEST.json written unvalidated")

if __name__ == "__main__":
    main()
