#!/usr/bin/env python3
"""Regenerates /verif/MANIFEST.json from the table below and validates it."""
import json, os, subprocess, sys
ROOT = os.path.dirname(os.path.dirname(os.path.abspath(__file__)))

HOOK_COMMITS = subprocess.run(
    ["git", "-C", "/repo", "log", "--format=%H %s", "--grep=^verif hooks"], capture_output=True, text=True
).stdout.strip().splitlines()

# id -> (engine, category, technique, level text, level note, design ref)
CHECKS = {
    "C04": ("lalr-diff", "exploration",
            "runtime differential monitor: kiki::generate vs reference LALR(1) construction over generated grammars",
            "Every generated grammar is run through the real generate(); the Ok/TableConflict outcome is compared with conflict-freeness of an independent LALR(1) automaton (canonical LR(1) merged by core). Held = no disagreement on the grammars explored (corpus, random, families per class, complete small scope in the thorough tier).",
            "Trusts the reference construction in harness/src/lr.rs and rustc/std; grammars larger than the generator bounds are not observed.", "5 (C04)"),
    "C11": ("lalr-diff", "translation_validation",
            "runtime monitor over returned error values: each TableConflict payload validated against the reference automaton",
            "Each TableConflict error actually returned is validated on its own: state index in range, items in that state, the two items demand different actions on a common lookahead, attached automaton isomorphic (cores, lookaheads, transitions, start) to the reference LALR(1) automaton, attached grammar equal to the reference AST of the input text.",
            "Trusts harness/src/lr.rs, rlex.rs, rkiki.rs; only conflicting grammars produced by the generators are observed.", "5 (C11)"),
    "C17": ("lalr-diff", "translation_validation",
            "per-program translation validation at run time: emitted ACTION/GOTO tables vs reference LALR(1) automaton",
            "For each accepted grammar the tables and start state are read back from the emitted text and compared cell by cell with the reference LALR(1) automaton under a state bijection established by a simultaneous walk (all states must be reached, error action everywhere else).",
            "Trusts the token-level reader of emitted text (harness/src/skim.rs; unreadable text is inconclusive, never a verdict) and harness/src/lr.rs.", "5 (C17)"),
}

NOT_YET = {
}

def main():
    props = [json.loads(l) for l in open(os.path.join(ROOT, "properties.jsonl"))]
    checks = []
    na = []
    for p in props:
        pid = p["id"]
        if pid in CHECKS:
            eng, cat, tech, text, note, ref = CHECKS[pid]
            checks.append({
                "property_id": pid,
                "quick_cmd": f"./check {pid} quick",
                "thorough_cmd": f"./check {pid} thorough",
                "evidence_file": f"/verif/evidence/{pid}.json",
                "replay_cmd_template": f"./check {pid} --replay {{path}}",
                "engine": eng,
                "level_claimed": {"category": cat, "text": text, "design_ref": f"DESIGN.md section {ref}"},
                "level_note": note,
                "technique": tech,
            })
        else:
            na.append({"property_id": pid, "reason": NOT_YET.get(pid, "monitor for this property is not built yet in this revision of /verif (work in progress; the technique applies, see DESIGN.md section 5)")})
    engines = {}
    for pid, c in CHECKS.items():
        engines.setdefault(c[0], []).append(pid)
    manifest = {
        "version": 1,
        "setup_cmd": "cd /verif/harness && CARGO_NET_OFFLINE=true cargo build --release --offline && CARGO_NET_OFFLINE=true cargo build --offline --target-dir target-dev",
        "hooks": {
            "guard": "cargo feature `kiki_verif` of the kiki crate (off by default)",
            "enable": "the harness crate depends on kiki by path with features = [\"kiki_verif\"] (harness/Cargo.toml); every ./check rebuilds it from /repo's working tree",
            "baseline_off_cmd": "cd /repo && cargo test --workspace --no-fail-fast --offline",
            "source_commits": [l.split()[0] for l in HOOK_COMMITS],
            "add_only": True,
        },
        "engines": [
            {"name": n, "path": f"harness/src/engines/{n.replace('-', '_')}.rs", "serves_properties": sorted(ps),
             "kind_free_text": "runtime monitor: real code driven by generated workloads in sharded worker processes, observations checked against independent reference models"}
            for n, ps in sorted(engines.items())
        ],
        "checks": checks,
        "not_applicable": na,
        "notes": "All checks: ./check <ID> quick|thorough [VERIF_SEED=<n>]; exit 0 held / 1 VIOLATION / 2 inconclusive. Known findings: KNOWN_FINDINGS.txt. Design: DESIGN.md.",
    }
    if not na:
        del manifest["not_applicable"]
    path = os.path.join(ROOT, "MANIFEST.json")
    json.dump(manifest, open(path, "w"), indent=1)
    open(path, "a").write("\n")
    try:
        import jsonschema
        jsonschema.validate(manifest, json.load(open("/root/.vp/MANIFEST.schema.json")))
        print("MANIFEST.json valid;", len(checks), "checks,", len(na), "not claimed")
    except ImportError:
        print("jsonschema not available; MANIFEST.json written unvalidated")

if __name__ == "__main__":
    main()
