#!/bin/bash
# tools/try_patch.sh <patch.diff> <ID> [<ID> ...]
# Applies a seeded fault to /repo, runs the quick checks of the given properties, and undoes it.
set -u
PATCH="$(readlink -f "$1")"; shift
cd /verif
git -C /repo diff --quiet || { echo "/repo has uncommitted changes; refusing"; exit 3; }
git -C /repo apply "$PATCH" || { echo "patch does not apply"; exit 3; }
trap 'git -C /repo checkout -- . ; git -C /repo clean -fdq kiki kiki_e2e_test 2>/dev/null' EXIT
for id in "$@"; do
  s=$(date +%s)
  out=$(./check "$id" ${TIER:-quick} 2>&1); rc=$?
  e=$(date +%s)
  echo "== $id rc=$rc $((e-s))s"
  echo "$out" | grep -E "^(HELD|VIOLATION|INCONCLUSIVE|KNOWN-FINDING|  violation)" | cut -c1-400
done
