#!/bin/bash
# tools/coverage.sh [ids...]  — non-deciding reach report: line/region coverage of /repo/kiki/src under the
# quick workloads (instrumented build of the harness + kiki in harness/target-cov).  Writes coverage/REPORT.txt.
set -u
cd "$(dirname "$0")/.."
IDS="${@:-C01 C04 C05 C06 C07 C08 C09 C10 C11 C12 C13 C14 C15 C16 C17 C18}"
BIN=$(ls -d /root/.rustup/toolchains/nightly-x86_64-unknown-linux-gnu/lib/rustlib/x86_64-unknown-linux-gnu/bin)
PROF=$(mktemp -d -t kvcov-XXXXXX)
trap 'rm -rf "$PROF"' EXIT
(cd harness && RUSTFLAGS="-Cinstrument-coverage" cargo build --release --offline --target-dir target-cov) >"$PROF/build.log" 2>&1 || { tail "$PROF/build.log"; exit 2; }
export LLVM_PROFILE_FILE="$PROF/kv-%p-%m.profraw" KV_VERIF_ROOT="$PROF/root"
mkdir -p "$PROF/root"; cp KNOWN_FINDINGS.txt "$PROF/root/"
for p in $IDS; do harness/target-cov/release/kv check $p quick >"$PROF/$p.log" 2>&1; echo "$p rc=$? $(grep -E '^(HELD|VIOL|INCONC)' "$PROF/$p.log" | head -1)"; done
"$BIN/llvm-profdata" merge -sparse "$PROF"/*.profraw -o "$PROF/kv.profdata" || exit 2
mkdir -p coverage
{
  echo "# Coverage of /repo/kiki/src under the quick workloads of: $IDS"
  echo "# (non-deciding; produced by tools/coverage.sh at /repo $(git -C /repo rev-parse --short HEAD))"
  "$BIN/llvm-cov" report harness/target-cov/release/kv -instr-profile="$PROF/kv.profdata" --ignore-filename-regex='(\.cargo|rustc/|/verif/|parser\.rs|tests|test_utils)' 2>/dev/null
} > coverage/REPORT.txt
"$BIN/llvm-cov" show harness/target-cov/release/kv -instr-profile="$PROF/kv.profdata" --ignore-filename-regex='(\.cargo|rustc/|/verif/|parser\.rs|tests|test_utils)' -show-line-counts-or-regions 2>/dev/null | grep -E "^\s+[0-9]+\|\s+0\|" | head -400 > coverage/UNCOVERED_LINES.txt
tail -30 coverage/REPORT.txt
