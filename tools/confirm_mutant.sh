#!/bin/bash
# tools/confirm_mutant.sh <worktree>   e.g. /tmp/mut/C08
# Confirms, in the scratch worktree, that a seeded fault (MUTATION/patch.diff) compiles, passes the
# existing tests, and that its demonstration fails with the change and passes without it.
set -u
W="$1"; cd "$W" || exit 3
export CARGO_NET_OFFLINE=true   # (no CARGO_TARGET_DIR: demonstrations may rely on ./target)
git checkout -q -- kiki kiki_e2e_test 2>/dev/null
git clean -fdq -- kiki/src 2>/dev/null   # (files a patch creates)
git apply --check MUTATION/patch.diff || { echo "CONFIRM: patch does not apply to a clean tree"; exit 1; }
echo "--- demo on the unmodified tree (must pass)"
bash MUTATION/demo.sh >"$W/MUTATION/confirm_without.log" 2>&1; rc0=$?
echo "demo exit without change: $rc0"
git checkout -q -- kiki kiki_e2e_test 2>/dev/null
git clean -fdq -- kiki/src 2>/dev/null
git apply MUTATION/patch.diff
echo "--- existing tests with the change (must pass); untracked demo tests are moved aside"
mkdir -p "$W/MUTATION/aside"
for f in $(git ls-files --others --exclude-standard -- kiki kiki_e2e_test | grep -v "^kiki/src/"); do mkdir -p "$W/MUTATION/aside/$(dirname $f)"; mv "$f" "$W/MUTATION/aside/$f"; done
cargo test --workspace --no-fail-fast --offline >"$W/MUTATION/confirm_tests.log" 2>&1; rct=$?
grep -E "^test result" "$W/MUTATION/confirm_tests.log" | tr '\n' ' '; echo; echo "tests exit with change: $rct"
git checkout -q -- kiki_e2e_test 2>/dev/null
(cd "$W/MUTATION/aside" && find . -type f | while read f; do mkdir -p "$W/$(dirname $f)"; mv "$f" "$W/$f"; done)
echo "--- demo with the change (must fail)"
bash MUTATION/demo.sh >"$W/MUTATION/confirm_with.log" 2>&1; rc1=$?
echo "demo exit with change: $rc1"
git checkout -q -- kiki_e2e_test 2>/dev/null
if [ $rc0 -eq 0 ] && [ $rct -eq 0 ] && [ $rc1 -ne 0 ]; then echo "CONFIRMED"; exit 0; else echo "NOT CONFIRMED"; exit 1; fi
