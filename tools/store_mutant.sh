#!/bin/bash
# tools/store_mutant.sh <scratch-worktree> <seeded-name> <property> <round> <base> "<change>" "<needs>" "<caught ids, space separated>" "<history>"
# Copies MUTATION/{patch.diff,README.md,demo*} into seeded/<name>/ and writes meta.json.
set -e
cd "$(dirname "$0")/.."
W="$1"; NAME="$2"; PROP="$3"; ROUND="$4"; BASE="$5"; CHANGE="$6"; NEEDS="$7"; CAUGHT="$8"; HIST="$9"
D="seeded/$NAME"
mkdir -p "$D"
cp "$W"/MUTATION/patch.diff "$D/"
for f in "$W"/MUTATION/README.md "$W"/MUTATION/demo*; do [ -e "$f" ] && cp -r "$f" "$D/"; done
python3 - "$D" "$PROP" "$ROUND" "$BASE" "$CHANGE" "$NEEDS" "$CAUGHT" "$HIST" "$NAME" <<'PY'
import json,sys
d,prop,rnd,base,change,needs,caught,hist,name=sys.argv[1:10]
meta={
 "property_broken":prop,
 "round":int(rnd),
 "origin":("written by a fresh sub-agent that saw the property texts, its own property to break, a list of the 94 earlier seeded faults with their triggers, a detailed description of everything the tester generates and compares (it was asked for a dimension that description does not mention), and a scratch worktree of the repository (no file of /verif)" if int(rnd) >= 7 else "written by a fresh sub-agent that saw the property texts, its own property to break, a list of the 79 earlier seeded faults with their triggers, a paragraph describing what kind of tester hunts the fault, and a scratch worktree of the repository (no file of /verif)" if int(rnd) >= 6 else "written by a fresh sub-agent that saw only the property texts, a one-line list of the earlier seeded faults, a scratch worktree of the repository and a trigger dimension to use (nothing from /verif)" if int(rnd) == 5 else "written by a fresh sub-agent that saw only the property texts, a scratch worktree of the repository and a pipeline stage to work in (nothing from /verif)"),
 "base_commit":base,
 "change":change,
 "needs_to_manifest":needs,
 "confirmed":"tools/confirm_mutant.sh in the scratch worktree: patch applies; 118/118 tests pass with the change; the demonstration exits non-zero with the change and 0 without it",
 "checks_run":"tools/try_patch.sh seeded/%s/patch.diff <ID>"%name,
 "caught_by_quick_checks":caught.split(),
 "history":hist,
}
json.dump(meta,open(d+"/meta.json","w"),indent=1)
PY
echo "stored $D"
