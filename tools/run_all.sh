#!/bin/bash
# tools/run_all.sh <tier> [ids...]   runs the checks one after the other and prints one line per check
TIER="${1:-quick}"; shift
IDS="${@:-C01 C02 C03 C04 C05 C06 C07 C08 C09 C10 C11 C12 C13 C14 C15 C16 C17 C18}"
cd "$(dirname "$0")/.."
for p in $IDS; do
  s=$(date +%s); out=$(./check $p $TIER 2>&1); rc=$?; e=$(date +%s)
  echo "$p tier=$TIER seed=${VERIF_SEED:-1} rc=$rc $((e-s))s $(echo "$out" | grep -E "^(HELD|VIOLATION|INCONCLUSIVE|KNOWN)" | cut -c1-110 | tr '\n' '|')"
  if [ $rc -ne 0 ]; then echo "$out" | tail -25; fi
done
