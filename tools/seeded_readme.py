#!/usr/bin/env python3
"""Regenerate the table at the end of seeded/README.md from the meta.json files."""
import json, glob, os, re
root = os.path.join(os.path.dirname(os.path.abspath(__file__)), '..', 'seeded')
readme = os.path.join(root, 'README.md')
text = open(readme).read()
head = text.split('| fault | property |')[0]
def key(d):
    n = os.path.basename(d)
    m = re.match(r'C(\d+)(-2)?$', n)
    if m: return (1 if not m.group(2) else 2, int(m.group(1)), n)
    m = re.match(r'R(\d+)-', n)
    return (int(m.group(1)), 0, n) if m else (99, 0, n)
rows = []
for d in sorted(glob.glob(os.path.join(root, '*/')), key=lambda d: key(d.rstrip('/'))):
    d = d.rstrip('/')
    mp = os.path.join(d, 'meta.json')
    if not os.path.exists(mp): continue
    m = json.load(open(mp))
    esc = lambda s: str(s).replace('|', '\\|').replace('\n', ' ')
    rows.append('| `%s` | %s | %s | %s | %s | %s |' % (os.path.basename(d), m['property_broken'], esc(m['change']), esc(m['needs_to_manifest']), ', '.join(m['caught_by_quick_checks']), esc(m.get('history', ''))))
open(readme, 'w').write(head + '| fault | property | change | needs | caught by (quick) | history |\n|---|---|---|---|---|---|\n' + '\n'.join(rows) + '\n')
print(len(rows), 'faults')
