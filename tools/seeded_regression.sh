#!/bin/bash
# tools/seeded_regression.sh [dirs...]
# For every seeded fault: apply it to the repository checkout (KV_REPO, default /repo), run the quick checks
# listed in its meta.json ("caught_by_quick_checks") and require a VIOLATION from each; undo the patch.
# Meant for `vp run --with-repo -- bash -c 'KV_REPO=$VP_RUN_REPO tools/seeded_regression.sh'`.
set -u
cd "$(dirname "$0")/.."
REPO="${KV_REPO:-/repo}"
DIRS="${@:-$(ls -d seeded/*/)}"
fail=0
for d in $DIRS; do
  [ -f "$d/patch.diff" ] || continue
  ids=$(python3 -c "import json;print(' '.join(json.load(open('$d/meta.json'))['caught_by_quick_checks']))")
  git -C "$REPO" diff --quiet || { echo "$REPO is dirty"; exit 3; }
  git -C "$REPO" apply "$(readlink -f $d/patch.diff)" || { echo "$d: patch does not apply"; fail=1; continue; }
  for id in $ids; do
    out=$(timeout 2400 ./check $id quick 2>&1); rc=$?
    occ=$(echo "$out" | grep -o "([0-9]* occurrences)" | tr -dc '0-9\n' | paste -sd+ | bc 2>/dev/null)
    if [ $rc -eq 1 ] && echo "$out" | grep -q "^VIOLATION property=$id"; then echo "$d: caught by $id (${occ:-?} violating observations)"; else echo "$d: NOT caught by $id (rc=$rc)"; fail=1; fi
  done
  git -C "$REPO" checkout -- .
  git -C "$REPO" clean -fdq kiki kiki_e2e_test 2>/dev/null
done
exit $fail
