//! R-kiki: the published Kiki grammar.  (a) as data, recognised by the
//! reference LR(1) machinery of `lr.rs`; (b) as a hand-written predictive
//! recogniser that also builds the reference AST.  Both give accept / index of
//! the first token that cannot continue any valid file / end of input; a
//! disagreement between them is an oracle bug (=> inconclusive).

use crate::lr;
use crate::model::{cfg_from_text, Cfg};
use crate::rlex::{self, RTok, K};

/// USER_GUIDE.md / parser.kiki, 42 productions over the 17 token kinds.
/// Token names are chosen so that `cfg_from_text` sees them as terminals.
pub const KIKI_GRAMMAR: &str = "
File -> Items ;
Items -> | Items Item ;
Item -> start ident | Struct | Enum | Term ;
Struct -> Attrs struct ident Fieldset ;
Enum -> Attrs enum ident { Variants } ;
Term -> Attrs terminal ident { TVariants } ;
Attrs -> | Attrs attr ;
Fieldset -> | NamedFieldset | TupleFieldset ;
NamedFieldset -> { NFields } ;
TupleFieldset -> ( TFields ) ;
NFields -> NField | NFields NField ;
NField -> IdOrUs : Sym ;
TFields -> TField | TFields TField ;
TField -> Sym | _ : Sym ;
Variants -> | Variants Variant ;
Variant -> ident Fieldset ;
TVariants -> | TVariants TVariant ;
TVariant -> tident : Type ;
Type -> ( ) | Path | ComplexType ;
ComplexType -> Path < Types > ;
Path -> ident | Path :: ident ;
Types -> Type | Types , Type ;
IdOrUs -> ident | _ ;
Sym -> ident | tident
";

fn kind_of_grammar_terminal(name: &str) -> K {
    match name {
        "start" => K::StartKw,
        "struct" => K::StructKw,
        "enum" => K::EnumKw,
        "terminal" => K::TerminalKw,
        "ident" => K::Ident,
        "tident" => K::TerminalIdent,
        "attr" => K::Attr,
        "_" => K::Underscore,
        ":" => K::Colon,
        "::" => K::DoubleColon,
        "," => K::Comma,
        "(" => K::LParen,
        ")" => K::RParen,
        "{" => K::LCurly,
        "}" => K::RCurly,
        "<" => K::LAngle,
        ">" => K::RAngle,
        other => panic!("unknown terminal {other} in KIKI_GRAMMAR"),
    }
}

pub struct KikiGrammar {
    pub cfg: Cfg,
    /// token kind -> terminal index of `cfg`
    pub term_of_kind: Vec<usize>,
}

impl KikiGrammar {
    pub fn new() -> KikiGrammar {
        let (cfg, _nts, t_names, _force) = cfg_from_text(KIKI_GRAMMAR);
        assert_eq!(cfg.rules.len(), 42, "the Kiki grammar has 42 productions");
        assert_eq!(cfg.nt, 17);
        let mut term_of_kind = vec![usize::MAX; 17];
        for (i, n) in t_names.iter().enumerate() {
            term_of_kind[kind_of_grammar_terminal(n).index()] = i;
        }
        assert!(term_of_kind.iter().all(|x| *x != usize::MAX));
        KikiGrammar { cfg, term_of_kind }
    }
    pub fn word(&self, kinds: &[K]) -> Vec<usize> {
        kinds.iter().map(|k| self.term_of_kind[k.index()]).collect()
    }
}

#[derive(Clone, Debug, PartialEq, Eq)]
pub enum Verdict {
    Accept,
    /// Index of the first token that cannot continue any valid file; `None`: the file stops too early.
    Reject(Option<usize>),
}

/// Verdict of the grammar-as-data recogniser (canonical LR(1)).
pub fn lr_verdict(g: &KikiGrammar, r: &lr::Reference, kinds: &[K], cells: Option<&mut Vec<(usize, usize)>>) -> Verdict {
    let w = g.word(kinds);
    match lr::lr_parse(&r.ctx, &r.lr1, &w, cells) {
        lr::ParseOutcome::Accept(_) => Verdict::Accept,
        lr::ParseOutcome::Reject(i) => Verdict::Reject(i),
        lr::ParseOutcome::Conflict => panic!("the Kiki grammar is LR(1)"),
    }
}

// ---------------------------------------------------------------------------
// Reference AST

#[derive(Clone, Debug, PartialEq, Eq)]
pub struct RIdent {
    pub name: String,
    pub pos: usize,
}

#[derive(Clone, Debug, PartialEq, Eq)]
pub enum RSym {
    N(RIdent),
    /// Dollarless name; `pos` is the position of the name (just after the `$`).
    T(RIdent),
}

#[derive(Clone, Debug, PartialEq, Eq)]
pub struct RField {
    /// `Some` for a named, used field.
    pub name: Option<RIdent>,
    /// Written `_:`.
    pub skipped: bool,
    pub underscore_pos: Option<usize>,
    pub sym: RSym,
}

#[derive(Clone, Debug, PartialEq, Eq)]
pub enum RFieldset {
    Empty,
    Named(Vec<RField>),
    Tuple(Vec<RField>),
}

impl RFieldset {
    pub fn fields(&self) -> &[RField] {
        match self {
            RFieldset::Empty => &[],
            RFieldset::Named(f) | RFieldset::Tuple(f) => f,
        }
    }
}

#[derive(Clone, Debug, PartialEq, Eq)]
pub enum RType {
    Unit,
    Path(Vec<RIdent>),
    Generic(Vec<RIdent>, Vec<RType>),
}

impl RType {
    pub fn token_texts(&self, out: &mut Vec<String>) {
        let path = |p: &[RIdent], out: &mut Vec<String>| {
            for (i, s) in p.iter().enumerate() {
                if i > 0 {
                    out.push("::".into());
                }
                out.push(s.name.clone());
            }
        };
        match self {
            RType::Unit => {
                out.push("(".into());
                out.push(")".into());
            }
            RType::Path(p) => path(p, out),
            RType::Generic(p, args) => {
                path(p, out);
                out.push("<".into());
                for (i, a) in args.iter().enumerate() {
                    if i > 0 {
                        out.push(",".into());
                    }
                    a.token_texts(out);
                }
                out.push(">".into());
            }
        }
    }
}

#[derive(Clone, Debug, PartialEq, Eq)]
pub struct RAttr {
    pub src: String,
    pub pos: usize,
}

#[derive(Clone, Debug, PartialEq, Eq)]
pub enum RItem {
    Start(RIdent),
    Struct {
        attrs: Vec<RAttr>,
        name: RIdent,
        fieldset: RFieldset,
    },
    Enum {
        attrs: Vec<RAttr>,
        name: RIdent,
        variants: Vec<(RIdent, RFieldset)>,
    },
    Terminal {
        attrs: Vec<RAttr>,
        name: RIdent,
        variants: Vec<(RIdent, RType)>,
    },
}

struct P<'a> {
    src: &'a str,
    t: &'a [RTok],
    i: usize,
}

type PResult<T> = Result<T, Option<usize>>;

impl<'a> P<'a> {
    fn peek(&self) -> Option<K> {
        self.t.get(self.i).map(|t| t.kind)
    }
    fn fail<T>(&self) -> PResult<T> {
        Err(if self.i < self.t.len() { Some(self.i) } else { None })
    }
    fn text(&self, t: &RTok) -> &'a str {
        &self.src[t.start..t.end]
    }
    fn expect(&mut self, k: K) -> PResult<RTok> {
        if self.peek() == Some(k) {
            self.i += 1;
            Ok(self.t[self.i - 1])
        } else {
            self.fail()
        }
    }
    fn ident(&mut self) -> PResult<RIdent> {
        let t = self.expect(K::Ident)?;
        Ok(RIdent {
            name: self.text(&t).to_string(),
            pos: t.start,
        })
    }
    fn file(&mut self) -> PResult<Vec<RItem>> {
        let mut items = vec![];
        while self.peek().is_some() {
            if self.peek() == Some(K::StartKw) {
                self.i += 1;
                items.push(RItem::Start(self.ident()?));
                continue;
            }
            let mut attrs = vec![];
            while self.peek() == Some(K::Attr) {
                let t = self.t[self.i];
                attrs.push(RAttr {
                    src: self.text(&t).to_string(),
                    pos: t.start,
                });
                self.i += 1;
            }
            match self.peek() {
                Some(K::StructKw) => {
                    self.i += 1;
                    let name = self.ident()?;
                    let fieldset = self.fieldset()?;
                    items.push(RItem::Struct {
                        attrs,
                        name,
                        fieldset,
                    });
                }
                Some(K::EnumKw) => {
                    self.i += 1;
                    let name = self.ident()?;
                    self.expect(K::LCurly)?;
                    let mut variants = vec![];
                    while self.peek() == Some(K::Ident) {
                        let vn = self.ident()?;
                        let fs = self.fieldset()?;
                        variants.push((vn, fs));
                    }
                    self.expect(K::RCurly)?;
                    items.push(RItem::Enum {
                        attrs,
                        name,
                        variants,
                    });
                }
                Some(K::TerminalKw) => {
                    self.i += 1;
                    let name = self.ident()?;
                    self.expect(K::LCurly)?;
                    let mut variants = vec![];
                    while self.peek() == Some(K::TerminalIdent) {
                        let t = self.t[self.i];
                        self.i += 1;
                        self.expect(K::Colon)?;
                        let ty = self.type_()?;
                        variants.push((
                            RIdent {
                                name: self.text(&t)[1..].to_string(),
                                pos: t.start + 1,
                            },
                            ty,
                        ));
                    }
                    self.expect(K::RCurly)?;
                    items.push(RItem::Terminal {
                        attrs,
                        name,
                        variants,
                    });
                }
                _ => return self.fail(),
            }
        }
        Ok(items)
    }
    fn sym(&mut self) -> PResult<RSym> {
        match self.peek() {
            Some(K::Ident) => Ok(RSym::N(self.ident()?)),
            Some(K::TerminalIdent) => {
                let t = self.t[self.i];
                self.i += 1;
                Ok(RSym::T(RIdent {
                    name: self.text(&t)[1..].to_string(),
                    pos: t.start + 1,
                }))
            }
            _ => self.fail(),
        }
    }
    fn fieldset(&mut self) -> PResult<RFieldset> {
        match self.peek() {
            Some(K::LCurly) => {
                self.i += 1;
                let mut fields = vec![];
                loop {
                    let (name, skipped, upos) = match self.peek() {
                        Some(K::Ident) => (Some(self.ident()?), false, None),
                        Some(K::Underscore) => {
                            let p = self.t[self.i].start;
                            self.i += 1;
                            (None, true, Some(p))
                        }
                        _ => return self.fail(),
                    };
                    self.expect(K::Colon)?;
                    let sym = self.sym()?;
                    fields.push(RField {
                        name,
                        skipped,
                        underscore_pos: upos,
                        sym,
                    });
                    if self.peek() == Some(K::RCurly) {
                        break;
                    }
                }
                self.expect(K::RCurly)?;
                Ok(RFieldset::Named(fields))
            }
            Some(K::LParen) => {
                self.i += 1;
                let mut fields = vec![];
                loop {
                    let mut skipped = false;
                    let mut upos = None;
                    if self.peek() == Some(K::Underscore) {
                        upos = Some(self.t[self.i].start);
                        self.i += 1;
                        self.expect(K::Colon)?;
                        skipped = true;
                    }
                    let sym = self.sym()?;
                    fields.push(RField {
                        name: None,
                        skipped,
                        underscore_pos: upos,
                        sym,
                    });
                    if self.peek() == Some(K::RParen) {
                        break;
                    }
                }
                self.expect(K::RParen)?;
                Ok(RFieldset::Tuple(fields))
            }
            _ => Ok(RFieldset::Empty),
        }
    }
    fn type_(&mut self) -> PResult<RType> {
        if self.peek() == Some(K::LParen) {
            self.i += 1;
            self.expect(K::RParen)?;
            return Ok(RType::Unit);
        }
        let mut path = vec![self.ident()?];
        while self.peek() == Some(K::DoubleColon) {
            self.i += 1;
            path.push(self.ident()?);
        }
        if self.peek() == Some(K::LAngle) {
            self.i += 1;
            let mut args = vec![self.type_()?];
            while self.peek() == Some(K::Comma) {
                self.i += 1;
                args.push(self.type_()?);
            }
            self.expect(K::RAngle)?;
            return Ok(RType::Generic(path, args));
        }
        Ok(RType::Path(path))
    }
}

/// The predictive recogniser.  `Err(i)`: first token that cannot continue any valid file.
pub fn parse_tokens(src: &str, toks: &[RTok]) -> Result<Vec<RItem>, Option<usize>> {
    // Type nesting is recursive in this recogniser; run on a big stack.
    let mut p = P { src, t: toks, i: 0 };
    p.file()
}

pub fn parse_tokens_big_stack(src: &str, toks: &[RTok]) -> Result<Vec<RItem>, Option<usize>> {
    let src2 = src.to_string();
    let toks2 = toks.to_vec();
    std::thread::Builder::new()
        .stack_size(1 << 30)
        .spawn(move || parse_tokens(&src2, &toks2))
        .expect("spawn")
        .join()
        .expect("reference parser panicked")
}

/// Lex + parse a source text that is expected to be syntactically valid.
pub fn reference_ast(src: &str) -> Result<Vec<RItem>, String> {
    let toks = rlex::lex(src).map_err(|e| format!("reference lexer rejects the text at {}", e.index))?;
    parse_tokens(src, &toks).map_err(|e| format!("reference parser rejects the text at token {e:?}"))
}

// ---------------------------------------------------------------------------
// Comparison with kiki's data structures

fn same_ident(k: &kiki::data::token::Ident, r: &RIdent) -> bool {
    k.name == r.name && k.position.0 == r.pos
}

fn same_sym(k: &kiki::data::cst::IdentOrTerminalIdent, r: &RSym) -> bool {
    use kiki::data::cst::IdentOrTerminalIdent as I;
    match (k, r) {
        (I::Ident(i), RSym::N(n)) => same_ident(i, n),
        (I::Terminal(t), RSym::T(n)) => t.name.raw() == n.name && t.dollarless_position.0 == n.pos,
        _ => false,
    }
}

fn same_fieldset(k: &kiki::data::ast::Fieldset, r: &RFieldset) -> Result<(), String> {
    use kiki::data::ast::{Fieldset as F, TupleField};
    use kiki::data::cst::IdentOrUnderscore as U;
    match (k, r) {
        (F::Empty, RFieldset::Empty) => Ok(()),
        (F::Named(n), RFieldset::Named(rf)) => {
            if n.fields.len() != rf.len() {
                return Err("named fieldset length differs".into());
            }
            for (a, b) in n.fields.iter().zip(rf) {
                let name_ok = match (&a.name, &b.name, b.underscore_pos) {
                    (U::Ident(i), Some(rn), _) => same_ident(i, rn),
                    (U::Underscore(p), None, Some(up)) => p.0 == up,
                    _ => false,
                };
                if !name_ok || !same_sym(&a.symbol, &b.sym) {
                    return Err(format!("named field differs: {a:?} vs {b:?}"));
                }
            }
            Ok(())
        }
        (F::Tuple(t), RFieldset::Tuple(rf)) => {
            if t.fields.len() != rf.len() {
                return Err("tuple fieldset length differs".into());
            }
            for (a, b) in t.fields.iter().zip(rf) {
                let ok = match a {
                    TupleField::Used(s) => !b.skipped && same_sym(s, &b.sym),
                    TupleField::Skipped(s) => b.skipped && same_sym(s, &b.sym),
                };
                if !ok {
                    return Err(format!("tuple field differs: {a:?} vs {b:?}"));
                }
            }
            Ok(())
        }
        _ => Err("fieldset style differs".into()),
    }
}

fn same_attrs(k: &[kiki::data::token::Attribute], r: &[RAttr]) -> bool {
    k.len() == r.len() && k.iter().zip(r).all(|(a, b)| a.src == b.src && a.position.0 == b.pos)
}

/// Token texts of a type string as kiki stores it.
pub fn type_string_tokens(s: &str) -> Result<Vec<String>, String> {
    let toks = rlex::lex(s).map_err(|e| format!("type string {s:?} does not lex: {e:?}"))?;
    Ok(toks.iter().map(|t| s[t.start..t.end].to_string()).collect())
}

/// Is `file` (kiki's validated grammar) the grammar written in `src`?
pub fn compare_validated_file(file: &kiki::data::validated_file::File, src: &str) -> Result<(), String> {
    use kiki::data::validated_file::Nonterminal;
    let items = reference_ast(src)?;
    let starts: Vec<&RIdent> = items.iter().filter_map(|i| if let RItem::Start(s) = i { Some(s) } else { None }).collect();
    if starts.len() != 1 || starts[0].name != file.start {
        return Err(format!("start symbol {:?} vs reference {:?}", file.start, starts));
    }
    let terms: Vec<&RItem> = items.iter().filter(|i| matches!(i, RItem::Terminal { .. })).collect();
    let [RItem::Terminal { attrs, name, variants }] = terms.as_slice() else {
        return Err("reference file does not have exactly one terminal declaration".into());
    };
    if !same_attrs(&file.terminal_enum.attributes, attrs) {
        return Err("terminal enum attributes differ".into());
    }
    if file.terminal_enum.name != name.name {
        return Err("terminal enum name differs".into());
    }
    if file.terminal_enum.variants.len() != variants.len() {
        return Err("terminal variant count differs".into());
    }
    for (k, (rn, rt)) in file.terminal_enum.variants.iter().zip(variants) {
        if k.dollarless_name.raw() != rn.name {
            return Err(format!("terminal variant name {:?} vs {:?}", k.dollarless_name.raw(), rn.name));
        }
        let mut exp = vec![];
        rt.token_texts(&mut exp);
        if type_string_tokens(&k.type_)? != exp {
            return Err(format!("terminal variant type {:?} vs reference tokens {:?}", k.type_, exp));
        }
    }
    let rnts: Vec<&RItem> = items.iter().filter(|i| matches!(i, RItem::Struct { .. } | RItem::Enum { .. })).collect();
    if rnts.len() != file.nonterminals.len() {
        return Err("nonterminal count differs".into());
    }
    for (k, r) in file.nonterminals.iter().zip(rnts) {
        match (k, r) {
            (Nonterminal::Struct(s), RItem::Struct { attrs, name, fieldset }) => {
                if !same_attrs(&s.attributes, attrs) || !same_ident(&s.name, name) {
                    return Err(format!("struct header differs: {:?} vs {:?}", s.name, name));
                }
                same_fieldset(&s.fieldset, fieldset)?;
            }
            (Nonterminal::Enum(e), RItem::Enum { attrs, name, variants }) => {
                if !same_attrs(&e.attributes, attrs) || !same_ident(&e.name, name) {
                    return Err(format!("enum header differs: {:?} vs {:?}", e.name, name));
                }
                if e.variants.len() != variants.len() {
                    return Err("variant count differs".into());
                }
                for (kv, (rn, rf)) in e.variants.iter().zip(variants) {
                    if !same_ident(&kv.name, rn) {
                        return Err(format!("variant name differs: {:?} vs {:?}", kv.name, rn));
                    }
                    same_fieldset(&kv.fieldset, rf)?;
                }
            }
            _ => return Err("nonterminal kind (struct/enum) differs".into()),
        }
    }
    Ok(())
}

// ---------------------------------------------------------------------------
// Reference AST -> grammar model (for using arbitrary valid Kiki files as corpus)

pub fn to_model(items: &[RItem]) -> Result<crate::model::Model, String> {
    use crate::model::*;
    let nts_items: Vec<&RItem> = items.iter().filter(|i| matches!(i, RItem::Struct { .. } | RItem::Enum { .. })).collect();
    let nt_index = |n: &str| nts_items.iter().position(|i| match i {
        RItem::Struct { name, .. } | RItem::Enum { name, .. } => name.name == n,
        _ => false,
    });
    let term_item = items.iter().find(|i| matches!(i, RItem::Terminal { .. })).ok_or("no terminal declaration")?;
    let RItem::Terminal { attrs: tattrs, name: tname, variants: tvariants } = term_item else { unreachable!() };
    let t_index = |n: &str| tvariants.iter().position(|(v, _)| v.name == n);
    fn ty(t: &RType) -> TypeExpr {
        match t {
            RType::Unit => TypeExpr::Unit,
            RType::Path(p) => TypeExpr::Path(p.iter().map(|s| s.name.clone()).collect()),
            RType::Generic(p, a) => TypeExpr::Generic(p.iter().map(|s| s.name.clone()).collect(), a.iter().map(ty).collect()),
        }
    }
    let conv_fs = |fs: &RFieldset, vname: &str| -> Result<Prod, String> {
        let style = match fs {
            RFieldset::Empty => Style::Empty,
            RFieldset::Named(_) => Style::Named,
            RFieldset::Tuple(_) => Style::Tuple,
        };
        let mut fields = vec![];
        for f in fs.fields() {
            let sym = match &f.sym {
                RSym::N(i) => Sym::N(nt_index(&i.name).ok_or_else(|| format!("undefined nonterminal {}", i.name))?),
                RSym::T(i) => Sym::T(t_index(&i.name).ok_or_else(|| format!("undefined terminal {}", i.name))?),
            };
            fields.push(Field {
                sym,
                used: !f.skipped,
                name: f.name.as_ref().map(|n| n.name.clone()).unwrap_or_default(),
            });
        }
        Ok(Prod { name: vname.to_string(), style, fields })
    };
    let mut nts = vec![];
    for it in &nts_items {
        match it {
            RItem::Struct { attrs, name, fieldset } => nts.push(Nt {
                name: name.name.clone(),
                is_enum: false,
                prods: vec![conv_fs(fieldset, &name.name)?],
                attrs: attrs.iter().map(|a| a.src.clone()).collect(),
            }),
            RItem::Enum { attrs, name, variants } => {
                let mut prods = vec![];
                for (vn, fs) in variants {
                    prods.push(conv_fs(fs, &vn.name)?);
                }
                nts.push(Nt { name: name.name.clone(), is_enum: true, prods, attrs: attrs.iter().map(|a| a.src.clone()).collect() });
            }
            _ => unreachable!(),
        }
    }
    let start_name = items.iter().find_map(|i| if let RItem::Start(s) = i { Some(s.name.clone()) } else { None }).ok_or("no start")?;
    let start = nt_index(&start_name).ok_or("undefined start")?;
    // positions of `start` / `terminal` relative to the nonterminal declarations
    let mut seen_nts = 0;
    let mut start_pos = 0;
    let mut term_pos = 0;
    for it in items {
        match it {
            RItem::Start(_) => start_pos = seen_nts,
            RItem::Terminal { .. } => term_pos = seen_nts,
            _ => seen_nts += 1,
        }
    }
    Ok(Model {
        nts,
        terms: tvariants.iter().map(|(n, t)| Term { name: n.name.clone(), ty: ty(t) }).collect(),
        term_enum: tname.name.clone(),
        term_attrs: tattrs.iter().map(|a| a.src.clone()).collect(),
        start,
        start_pos,
        term_pos,
    })
}

/// The example grammars shipped with the repository (read at run time from /repo).
pub fn repo_example_sources() -> Vec<(String, String)> {
    let mut out = vec![];
    let root = std::env::var("KV_REPO").unwrap_or_else(|_| "/repo".to_string());
    let mut paths = vec![format!("{root}/kiki/src/parser.kiki")];
    if let Ok(rd) = std::fs::read_dir(format!("{root}/kiki/src/examples")) {
        let mut ex: Vec<String> = rd
            .filter_map(|e| e.ok())
            .map(|e| e.path())
            .filter(|p| p.extension().map(|x| x == "kiki").unwrap_or(false))
            .map(|p| p.to_string_lossy().to_string())
            .collect();
        ex.sort();
        paths.extend(ex);
    }
    for p in paths {
        if let Ok(s) = std::fs::read_to_string(&p) {
            out.push((p, s));
        }
    }
    out
}
