#![allow(dead_code, unused_mut, clippy::all)]
//! kv — runtime-monitoring harness for kylejlin/kiki.
//!   kv check <PROP> <quick|thorough>     run one check (coordinator)
//!   kv replay <file>                     re-run the case recorded in a replay file
//!   kv worker ...                        (internal) run a shard of cases
//!   kv selftest                          oracle self-tests

mod chart;
mod coord;
mod engines;
mod gen;
mod gtext;
mod hashgen;
mod hashtwins;
mod kside;
mod lr;
mod model;
mod rkiki;
mod rlex;
mod rng;
mod runner;
mod rvalidate;
mod sha;
mod shape;
mod skim;
mod util;

use coord::{CheckOptions, Engine, Tier};

fn engine_for(prop: &str) -> Option<&'static dyn Engine> {
    static LALR: engines::lalr_diff::LalrDiff = engines::lalr_diff::LalrDiff;
    static EMIT: engines::emit_run::EmitRun = engines::emit_run::EmitRun;
    static FRONT: engines::front::Front = engines::front::Front;
    static TEXT: engines::text::Text = engines::text::Text;
    static COMPILE: engines::compile::Compile = engines::compile::Compile;
    static OSET: engines::oset::OsetEngine = engines::oset::OsetEngine;
    match prop {
        "C04" | "C11" | "C17" => Some(&LALR),
        "C01" | "C02" | "C03" => Some(&EMIT),
        "C07" | "C08" | "C09" | "C10" => Some(&FRONT),
        "C12" | "C13" | "C14" | "C15" | "C16" => Some(&TEXT),
        "C05" | "C06" => Some(&COMPILE),
        "C18" => Some(&OSET),
        _ => None,
    }
}

fn seed_from_env() -> u64 {
    std::env::var("VERIF_SEED").ok().and_then(|s| s.trim().parse::<i64>().ok()).map(|v| v as u64).unwrap_or(1)
}

fn main() {
    let args: Vec<String> = std::env::args().skip(1).collect();
    let code = match args.first().map(|s| s.as_str()) {
        Some("check") if args.len() >= 3 => {
            let prop = args[1].clone();
            let Some(tier) = Tier::parse(&args[2]) else {
                eprintln!("tier must be quick or thorough");
                std::process::exit(2);
            };
            let Some(engine) = engine_for(&prop) else {
                println!("INCONCLUSIVE property={prop} reason=no engine for this property");
                std::process::exit(2);
            };
            let o = CheckOptions {
                prop,
                tier,
                seed: seed_from_env(),
                only_case: std::env::var("KV_ONLY_CASE").ok().and_then(|s| s.parse().ok()),
            };
            coord::check_main(engine, &o)
        }
        Some("replay") if args.len() >= 2 => {
            let text = std::fs::read_to_string(&args[1]).expect("read replay file");
            let v: serde_json::Value = serde_json::from_str(&text).expect("replay file is JSON");
            let prop = v["property"].as_str().expect("property").to_string();
            let tier = Tier::parse(v["tier"].as_str().unwrap_or("quick")).unwrap_or(Tier::Quick);
            let seed = v["seed"].as_u64().unwrap_or(1);
            let case = v["case"].as_u64();
            let Some(engine) = engine_for(&prop) else {
                println!("INCONCLUSIVE property={prop} reason=no engine");
                std::process::exit(2);
            };
            println!("replaying property={prop} tier={} seed={seed} case={case:?} sig={}", tier.name(), v["sig"]);
            let o = CheckOptions {
                prop,
                tier,
                seed,
                only_case: case,
            };
            std::env::set_var("KV_REPLAY", "1");
            coord::check_main(engine, &o)
        }
        Some("worker") => {
            let prop = args[1].clone();
            let engine = engine_for(&prop).expect("engine");
            coord::worker_main(engine, &args[1..])
        }
        Some("selftest") => engines::selftest(),
        Some("oneshot") if args.len() >= 2 => engines::stress::oneshot_main(&args[1]),
        Some("mk-hashtwins") if args.len() >= 2 => hashgen::main(&args[1]),
        Some("digest") if args.len() >= 2 => engines::text::digest_main(&args[1]),
        Some("layoutprobe") if args.len() >= 2 => engines::text::layoutprobe_main(&args[1]),
        Some("streamprobe") if args.len() >= 3 => engines::front::streamprobe_main(&args[1], &args[2]),
        Some("stress-dump") if args.len() >= 3 => {
            let s = engines::stress::stress_case(Tier::Quick, seed_from_env(), args[1].parse().unwrap());
            std::fs::write(&args[2], &s.text).unwrap();
            println!("{} longest_list={} bytes={}", s.class, s.longest_list, s.text.len());
            0
        }
        _ => {
            eprintln!("usage: kv check <PROP> <quick|thorough> | kv replay <file> | kv selftest");
            2
        }
    };
    std::process::exit(code);
}
