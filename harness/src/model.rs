//! G-model: an abstract grammar file (declarations, fieldset styles, names,
//! attributes, payload types) and G-render: model -> Kiki source text.
//! Shares no code with kiki.

use crate::rng::Rng;

#[derive(Clone, Copy, Debug, PartialEq, Eq, Hash, PartialOrd, Ord)]
pub enum Sym {
    T(usize),
    N(usize),
}

#[derive(Clone, Copy, Debug, PartialEq, Eq, Hash, PartialOrd, Ord)]
pub enum Style {
    Empty,
    Named,
    Tuple,
}

#[derive(Clone, Debug)]
pub struct Field {
    pub sym: Sym,
    pub used: bool,
    /// Only meaningful for `Style::Named` and `used`.
    pub name: String,
}

#[derive(Clone, Debug)]
pub struct Prod {
    /// Variant name (enum) – unused for structs.
    pub name: String,
    pub style: Style,
    pub fields: Vec<Field>,
}

impl Prod {
    pub fn any_used(&self) -> bool {
        self.fields.iter().any(|f| f.used)
    }
    pub fn rhs(&self) -> Vec<Sym> {
        self.fields.iter().map(|f| f.sym).collect()
    }
}

#[derive(Clone, Debug)]
pub struct Nt {
    pub name: String,
    pub is_enum: bool,
    pub prods: Vec<Prod>,
    pub attrs: Vec<String>,
}

#[derive(Clone, Debug, PartialEq, Eq, Hash)]
pub enum TypeExpr {
    Unit,
    Path(Vec<String>),
    Generic(Vec<String>, Vec<TypeExpr>),
}

impl TypeExpr {
    pub fn path(s: &str) -> TypeExpr {
        TypeExpr::Path(s.split("::").map(|x| x.to_string()).collect())
    }

    /// The token texts of the type as written in a Kiki file.
    pub fn tokens(&self, out: &mut Vec<String>) {
        match self {
            TypeExpr::Unit => {
                out.push("(".into());
                out.push(")".into());
            }
            TypeExpr::Path(p) => push_path(p, out),
            TypeExpr::Generic(p, args) => {
                push_path(p, out);
                out.push("<".into());
                for (i, a) in args.iter().enumerate() {
                    if i > 0 {
                        out.push(",".into());
                    }
                    a.tokens(out);
                }
                out.push(">".into());
            }
        }
    }

    /// Compact single-line text, e.g. `a::b<c, ()>` (one particular legal
    /// spelling; the emitted text is compared token-wise, not byte-wise).
    pub fn text(&self) -> String {
        match self {
            TypeExpr::Unit => "()".to_string(),
            TypeExpr::Path(p) => p.join("::"),
            TypeExpr::Generic(p, args) => format!(
                "{}<{}>",
                p.join("::"),
                args.iter().map(|a| a.text()).collect::<Vec<_>>().join(", ")
            ),
        }
    }

    pub fn depth(&self) -> usize {
        match self {
            TypeExpr::Generic(_, args) => 1 + args.iter().map(|a| a.depth()).max().unwrap_or(0),
            _ => 0,
        }
    }
}

/// A generic type nested `depth` levels deep.  At every level the nested type sits in a chosen
/// argument position (first / last / middle / random) among 1-3 arguments; the callees vary.
pub fn deep_type(rng: &mut Rng, depth: usize) -> TypeExpr {
    const CALLEES: &[&str] = &["Box", "Vec", "Option", "std::rc::Rc", "M", "a::b::C", "K"];
    const LEAVES: &[&str] = &["u8", "K", "()", "a::B", "x"];
    let leaf = |rng: &mut Rng| {
        let l = rng.pick_str(LEAVES);
        if l == "()" {
            TypeExpr::Unit
        } else {
            TypeExpr::path(l)
        }
    };
    let mode = rng.below(6);
    let same_callee = rng.chance(0.3);
    let c0 = rng.pick_str(CALLEES);
    let mut t = leaf(rng);
    for _ in 0..depth {
        let callee = if same_callee { c0 } else { rng.pick_str(CALLEES) };
        let (n, pos) = match mode {
            0 => (1, 0),
            1 => (2, 1),
            2 => (2, 0),
            3 => (3, 1),
            4 => (3, 2),
            _ => {
                let n = rng.range(1, 3);
                (n, rng.below(n))
            }
        };
        let mut args: Vec<TypeExpr> = (0..n).map(|_| leaf(rng)).collect();
        args[pos] = t;
        t = TypeExpr::Generic(callee.split("::").map(|x| x.to_string()).collect(), args);
    }
    t
}

fn push_path(p: &[String], out: &mut Vec<String>) {
    for (i, seg) in p.iter().enumerate() {
        if i > 0 {
            out.push("::".into());
        }
        out.push(seg.clone());
    }
}

#[derive(Clone, Debug)]
pub struct Term {
    pub name: String,
    pub ty: TypeExpr,
}

#[derive(Clone, Debug)]
pub struct Model {
    pub nts: Vec<Nt>,
    pub terms: Vec<Term>,
    pub term_enum: String,
    pub term_attrs: Vec<String>,
    pub start: usize,
    /// The `start` statement is written before nonterminal `start_pos` (== nts.len(): at the end).
    pub start_pos: usize,
    /// Likewise for the `terminal` declaration.
    pub term_pos: usize,
}

/// One production of the plain context-free grammar.
#[derive(Clone, Debug, PartialEq, Eq, Hash)]
pub struct Rule {
    pub lhs: usize,
    pub rhs: Vec<Sym>,
}

/// The context-free grammar denoted by a model: one production per struct /
/// enum variant, in declaration order; `_` fields count like any other.
#[derive(Clone, Debug, PartialEq, Eq, Hash)]
pub struct Cfg {
    pub nn: usize,
    pub nt: usize,
    pub rules: Vec<Rule>,
    pub start: usize,
}

impl Cfg {
    pub fn rules_of(&self, n: usize) -> impl Iterator<Item = usize> + '_ {
        self.rules
            .iter()
            .enumerate()
            .filter(move |(_, r)| r.lhs == n)
            .map(|(i, _)| i)
    }

    /// Canonical hash modulo nothing (indices are already canonical for a model).
    pub fn hash64(&self) -> u64 {
        let mut h = crate::rng::mix(self.nn as u64, self.nt as u64);
        h = crate::rng::mix(h, self.start as u64);
        for r in &self.rules {
            h = crate::rng::mix(h, 0xABCD ^ r.lhs as u64);
            for s in &r.rhs {
                let v = match s {
                    Sym::T(i) => 2 * *i as u64,
                    Sym::N(i) => 2 * *i as u64 + 1,
                };
                h = crate::rng::mix(h, v);
            }
        }
        h
    }

    pub fn show(&self) -> String {
        let mut s = String::new();
        for r in &self.rules {
            s.push_str(&format!("N{} ->", r.lhs));
            for x in &r.rhs {
                match x {
                    Sym::T(i) => s.push_str(&format!(" t{i}")),
                    Sym::N(i) => s.push_str(&format!(" N{i}")),
                }
            }
            s.push_str("; ");
        }
        s.push_str(&format!("start N{}", self.start));
        s
    }
}

impl Model {
    pub fn cfg(&self) -> Cfg {
        let mut rules = vec![];
        for (i, nt) in self.nts.iter().enumerate() {
            for p in &nt.prods {
                rules.push(Rule {
                    lhs: i,
                    rhs: p.rhs(),
                });
            }
        }
        Cfg {
            nn: self.nts.len(),
            nt: self.terms.len(),
            rules,
            start: self.start,
        }
    }

    /// (nonterminal index, production index within it) of every rule, in rule order.
    pub fn rule_owners(&self) -> Vec<(usize, usize)> {
        let mut out = vec![];
        for (i, nt) in self.nts.iter().enumerate() {
            for j in 0..nt.prods.len() {
                out.push((i, j));
            }
        }
        out
    }

    pub fn sym_src(&self, s: Sym) -> String {
        match s {
            Sym::T(i) => format!("${}", self.terms[i].name),
            Sym::N(i) => self.nts[i].name.clone(),
        }
    }

    pub fn fieldset_src(&self, p: &Prod) -> String {
        match p.style {
            Style::Empty => String::new(),
            Style::Named => {
                let mut s = String::from(" {");
                for f in &p.fields {
                    let n = if f.used { f.name.as_str() } else { "_" };
                    s.push_str(&format!(" {}: {}", n, self.sym_src(f.sym)));
                }
                s.push_str(" }");
                s
            }
            Style::Tuple => {
                let mut s = String::from("(");
                for (i, f) in p.fields.iter().enumerate() {
                    if i > 0 {
                        s.push(' ');
                    }
                    if !f.used {
                        s.push_str("_: ");
                    }
                    s.push_str(&self.sym_src(f.sym));
                }
                s.push(')');
                s
            }
        }
    }

    pub fn nt_src(&self, i: usize) -> String {
        let nt = &self.nts[i];
        let mut s = String::new();
        for a in &nt.attrs {
            s.push_str(a);
            s.push('\n');
        }
        if nt.is_enum {
            s.push_str(&format!("enum {} {{\n", nt.name));
            for p in &nt.prods {
                s.push_str(&format!("    {}{}\n", p.name, self.fieldset_src(p)));
            }
            s.push_str("}\n");
        } else {
            s.push_str(&format!(
                "struct {}{}\n",
                nt.name,
                self.fieldset_src(&nt.prods[0])
            ));
        }
        s
    }

    pub fn terminal_src(&self) -> String {
        let mut s = String::new();
        for a in &self.term_attrs {
            s.push_str(a);
            s.push('\n');
        }
        s.push_str(&format!("terminal {} {{\n", self.term_enum));
        for t in &self.terms {
            s.push_str(&format!("    ${}: {}\n", t.name, t.ty.text()));
        }
        s.push_str("}\n");
        s
    }

    /// Plain rendering: one declaration after the other, conventional layout.
    pub fn render(&self) -> String {
        let mut s = String::new();
        for i in 0..=self.nts.len() {
            if self.start_pos == i {
                s.push_str(&format!("start {}\n", self.nts[self.start].name));
            }
            if self.term_pos == i {
                s.push_str(&self.terminal_src());
            }
            if i < self.nts.len() {
                s.push_str(&self.nt_src(i));
            }
        }
        s
    }

    /// Put `#[derive(Debug)]` on every declaration (needed to print trees).
    pub fn add_debug_derives(&mut self) {
        for nt in &mut self.nts {
            nt.attrs.push("#[derive(Debug)]".to_string());
        }
        self.term_attrs.push("#[derive(Debug)]".to_string());
    }
}

/// Assign fieldset styles / used masks / field names at random.
pub fn assign_random_shapes(m: &mut Model, rng: &mut Rng, used_prob: f64) {
    for nt in &mut m.nts {
        for p in &mut nt.prods {
            if p.fields.is_empty() {
                p.style = Style::Empty;
                continue;
            }
            p.style = if rng.chance(0.5) {
                Style::Named
            } else {
                Style::Tuple
            };
            let mode = rng.below(10);
            for (i, f) in p.fields.iter_mut().enumerate() {
                f.used = match mode {
                    0 => false,
                    1 => true,
                    _ => rng.chance(used_prob),
                };
                f.name = format!("f{i}");
            }
            if mode == 2 {
                // exactly one used field among skipped ones
                for f in p.fields.iter_mut() {
                    f.used = false;
                }
                let k = rng.below(p.fields.len());
                p.fields[k].used = true;
            }
        }
    }
}

/// Field and variant names in the styles users write them (call after the symbols have their final
/// names): fields named after their symbol (`expr: Expr`, `num_lit: $NumLit`), names whose
/// alphabetical order is unrelated or opposite to the declaration order.  Default names (`f0 f1 ..`,
/// `V0 V1 ..`) are already sorted, which would hide any accidental sorting by name.
pub fn vary_member_names(m: &mut Model, rng: &mut Rng) {
    const RESERVED: &[&str] = &[
        "as", "break", "const", "continue", "crate", "else", "enum", "extern", "false", "fn", "for", "if", "impl", "in", "let", "loop", "match", "mod", "move", "mut", "pub",
        "ref", "return", "self", "static", "struct", "super", "trait", "true", "type", "unsafe", "use", "where", "while", "async", "await", "dyn", "abstract", "become",
        "box", "do", "final", "macro", "override", "priv", "typeof", "unsized", "virtual", "yield", "try", "gen", "union", "start", "terminal", "_",
    ];
    let mode = rng.below(10);
    if mode < 4 {
        return;
    }
    let sym_names: Vec<String> = m.nts.iter().map(|n| n.name.clone()).collect();
    let term_names: Vec<String> = m.terms.iter().map(|t| t.name.clone()).collect();
    let snake = |s: &str| -> String {
        let mut out = String::new();
        let cs: Vec<char> = s.chars().collect();
        for (i, c) in cs.iter().enumerate() {
            if c.is_ascii_uppercase() {
                if i > 0 && (cs[i - 1].is_ascii_lowercase() || cs[i - 1].is_ascii_digit()) {
                    out.push('_');
                }
                out.push(c.to_ascii_lowercase());
            } else {
                out.push(*c);
            }
        }
        out
    };
    let mut letters: Vec<&str> = vec!["z", "a", "m", "y", "b", "q", "k", "c", "x", "d"];
    rng.shuffle(&mut letters);
    for nt in &mut m.nts {
        let n_prods = nt.prods.len();
        for (j, p) in nt.prods.iter_mut().enumerate() {
            match mode {
                4..=6 => {
                    // natural style
                    let mut seen: Vec<String> = vec![];
                    for (i, f) in p.fields.iter_mut().enumerate() {
                        let base = match f.sym {
                            Sym::N(k) => snake(&sym_names[k]),
                            Sym::T(k) => snake(&term_names[k]),
                        };
                        let ok = base.chars().find(|c| c.is_alphabetic()).map(|c| c.is_lowercase()).unwrap_or(true)
                            && !base.is_empty()
                            && !base.starts_with(|c: char| c.is_ascii_digit())
                            && !RESERVED.contains(&base.as_str());
                        let mut name = if ok { base } else { format!("f{i}") };
                        if seen.contains(&name) {
                            name = format!("{name}_{i}");
                        }
                        if seen.contains(&name) {
                            name = format!("f{i}");
                        }
                        seen.push(name.clone());
                        f.name = name;
                    }
                    if mode == 6 && !p.fields.is_empty() {
                        // variants named after their first symbol
                        let first = match p.fields[0].sym {
                            Sym::N(k) => sym_names[k].clone(),
                            Sym::T(k) => term_names[k].clone(),
                        };
                        if first.starts_with(|c: char| c.is_ascii_uppercase()) {
                            p.name = format!("{first}Case{j}");
                        }
                    }
                }
                7..=8 => {
                    // alphabetical order unrelated to declaration order
                    for (i, f) in p.fields.iter_mut().enumerate() {
                        f.name = format!("{}{i}", letters[i % letters.len()]);
                    }
                    p.name = format!("{}{j}", letters[(j + 3) % letters.len()].to_uppercase());
                }
                _ => {
                    // strictly descending
                    let n = p.fields.len();
                    for (i, f) in p.fields.iter_mut().enumerate() {
                        f.name = format!("f{:03}", n - i);
                    }
                    p.name = format!("V{:03}", n_prods - j);
                }
            }
        }
    }
}

/// Names of Rust prelude items, primitive types and other words a generator might treat specially
/// (`Box`, `Option`, `Some`, `Vec`, `Self_`, `Result`, `String` ...).  They are outside the precondition
/// of the *compile* properties (C05/C06) but inside the domain of everything else (C04, C07, C10,
/// C11, C14, C16, C17 quantify over all grammars): only for engines that do not compile the output.
pub fn prelude_names(m: &mut Model, rng: &mut Rng) {
    const POOL: &[&str] = &[
        "Box", "Vec", "Option", "Some", "None", "Result", "Ok", "Err", "Iterator", "IntoIterator", "TryFrom", "TryInto", "String", "ToString", "Clone", "Copy", "Debug",
        "Default", "Drop", "Fn", "From", "Into", "Send", "Sync", "Sized", "Eq", "Ord", "PartialEq", "PartialOrd", "Hash", "Usize", "Str", "Self_", "Crate", "Super", "Std", "Core",
    ];
    let n = m.nts.len() + m.terms.len();
    if n > POOL.len() {
        return;
    }
    let mut names: Vec<&str> = POOL.to_vec();
    rng.shuffle(&mut names);
    if names.iter().take(n).any(|x| *x == m.term_enum) {
        return;
    }
    // all symbols, or only two or three of them
    let only = if rng.chance(0.5) { usize::MAX } else { rng.range(2, 3) };
    let off = m.nts.len();
    for (i, nt) in m.nts.iter_mut().enumerate() {
        if i < only {
            nt.name = names[i].to_string();
        }
    }
    for (i, t) in m.terms.iter_mut().enumerate() {
        if i < only {
            t.name = names[off + i].to_string();
        }
    }
    if rng.chance(0.2) {
        m.term_enum = names[n % names.len()].to_string();
        if m.nts.iter().any(|x| x.name == m.term_enum) || m.terms.iter().any(|x| x.name == m.term_enum) {
            m.term_enum = "Tok".to_string();
        }
    }
}

/// Give nonterminals and terminals names whose alphabetical order is unrelated to their
/// declaration order (kiki sorts symbols, items and states by name).
pub fn shuffle_names(m: &mut Model, rng: &mut Rng) {
    const POOL_PLAIN: &[&str] = &["A", "B", "C", "D", "E", "F", "G", "H", "K", "L", "M", "P", "Q", "R", "U", "W", "X", "Y", "Z", "Aa", "Ab", "Zz", "B2", "B10", "M_", "_9Q"];
    // names that are prefixes of each other / differ only in digits, underscores or case
    const POOL_CONFUSABLE: &[&str] = &["Expr", "Expr1", "Expr_1", "Expr2", "Expr10", "Exp", "EXPR", "Expr_", "E", "E1", "E_", "Ex", "List", "List1", "ListList", "L", "Li", "LIST", "List_", "_List", "__", "_1", "_1_", "X1", "X10", "X100"];
    // the emitter's own vocabulary (types, variants, statics, helper names of the emitted module)
    const POOL_EMITTER: &[&str] = &[
        "Eof", "Node", "State", "Action", "Shift", "Reduce", "Accept", "Quasiterminal", "QuasiterminalKind", "NonterminalKind", "RuleKind", "Token", "Terminal",
        "R0", "S0", "R1", "S1", "ACTION_TABLE", "GOTO_TABLE", "Eof2", "Node2", "State2", "S", "T", "N", "Goto", "Rule", "Kind", "Parse", "Item",
    ];
    // names over a two-letter alphabet: many different sequences of them spell the same string
    const POOL_CONCAT: &[&str] = &["A", "B", "AA", "AB", "BA", "BB", "AAA", "AAB", "ABA", "ABB", "BAA", "BAB", "BBA", "BBB", "ABAB", "AABB"];
    if rng.chance(0.15) && concat_twin_names(m, rng) {
        return;
    }
    if rng.chance(0.10) {
        // names that COLLIDE under a common 32-bit string hash (FNV, djb2, CRC-32, murmur3, FxHasher,
        // std's DefaultHasher truncated ...; precomputed pairs, see hashtwins.rs): pairs among the
        // nonterminals and pairs among the terminals; or names whose hash equals a reserved word's
        let (_, pairs) = *rng.pick(crate::hashtwins::TWINS);
        let mut flat: Vec<&str> = vec![];
        let mut order: Vec<usize> = (0..pairs.len()).collect();
        rng.shuffle(&mut order);
        for i in order {
            flat.push(pairs[i].0);
            flat.push(pairs[i].1);
        }
        if rng.chance(0.3) {
            let pre: Vec<&str> = crate::hashtwins::KEYWORD_PREIMAGES.iter().flat_map(|(_, _, v)| v.iter().copied()).filter(|n| n.starts_with(|c: char| c.is_ascii_uppercase())).collect();
            for _ in 0..3 {
                flat.insert(rng.below(flat.len() + 1), *rng.pick(&pre));
            }
        }
        let half = flat.len() / 2;
        let (a, b) = flat.split_at(half - half % 2);
        if m.nts.len() <= a.len() && m.terms.len() <= b.len() {
            let mut all: Vec<&str> = a[..m.nts.len()].to_vec();
            all.extend_from_slice(&b[..m.terms.len()]);
            all.push(&m.term_enum);
            let n = all.len();
            all.sort();
            all.dedup();
            if all.len() == n {
                let (na, nb): (Vec<String>, Vec<String>) = (a.iter().map(|x| x.to_string()).collect(), b.iter().map(|x| x.to_string()).collect());
                for (i, nt) in m.nts.iter_mut().enumerate() {
                    nt.name = na[i].clone();
                }
                for (i, t) in m.terms.iter_mut().enumerate() {
                    t.name = nb[i].clone();
                }
                return;
            }
        }
    }
    if rng.chance(0.07) {
        // CASE TWINS: names that differ only in the case of their letters (`Ab`/`AB`, `LParen`/`Lparen`), given
        // to symbols that are declared next to each other (so that they meet in one state, one lookahead
        // set, one table row); a comparison that ignores case confuses them
        const T_TWINS: &[&[&str]] = &[&["Ab", "AB"], &["Cd", "CD", "CD_"], &["Xyz", "XYZ", "XyZ"], &["Lparen", "LParen", "LPAREN"], &["Num", "NUM"], &["Op", "OP"], &["Kw", "KW"], &["Id", "ID"]];
        const N_TWINS: &[&[&str]] = &[&["Expr", "EXPR", "ExPr"], &["List", "LIST"], &["Item", "ITEM", "ITem"], &["Stmt", "STMT"], &["Ty", "TY"], &["Pat", "PAT"]];
        let mut tn: Vec<&str> = vec![];
        let mut order: Vec<usize> = (0..T_TWINS.len()).collect();
        rng.shuffle(&mut order);
        for i in order {
            tn.extend_from_slice(T_TWINS[i]);
        }
        let mut nn: Vec<&str> = vec![];
        let mut order: Vec<usize> = (0..N_TWINS.len()).collect();
        rng.shuffle(&mut order);
        for i in order {
            nn.extend_from_slice(N_TWINS[i]);
        }
        if m.terms.len() <= tn.len() && m.nts.len() <= nn.len() && !tn.iter().chain(nn.iter()).any(|x| *x == m.term_enum) {
            let twins_for_nts = rng.chance(0.5);
            for (i, t) in m.terms.iter_mut().enumerate() {
                t.name = tn[i].to_string();
            }
            for (i, nt) in m.nts.iter_mut().enumerate() {
                nt.name = if twins_for_nts { nn[i].to_string() } else { format!("N{i}x") };
            }
            return;
        }
    }
    if rng.chance(0.05) {
        // very long names that share a long prefix and differ only at the very end (keys cut to a fixed
        // width, hashes of prefixes, column arithmetic in the emitted text)
        let k = *rng.pick(&[31usize, 63, 64, 127, 255, 256, 300, 1000]);
        let prefix = format!("L{}", rng.pick_str(&["o", "x", "_", "9"]).repeat(k));
        for (i, nt) in m.nts.iter_mut().enumerate() {
            nt.name = format!("{prefix}N{i}");
        }
        for (i, t) in m.terms.iter_mut().enumerate() {
            t.name = format!("{prefix}T{i}");
        }
        return;
    }
    let which = rng.below(100);
    let confusable = which < 50;
    let POOL: &[&str] = if which < 26 {
        POOL_CONFUSABLE
    } else if which < 38 {
        POOL_EMITTER
    } else if which < 50 {
        POOL_CONCAT
    } else {
        POOL_PLAIN
    };
    let n = m.nts.len() + m.terms.len();
    if n > POOL.len() {
        return;
    }
    let mut names: Vec<&str> = POOL.to_vec();
    rng.shuffle(&mut names);
    let (sn, st) = if confusable { ("", "") } else { ("n", "t") };
    let off = m.nts.len();
    if confusable && names.iter().take(n).any(|x| *x == m.term_enum) {
        return;
    }
    for (i, nt) in m.nts.iter_mut().enumerate() {
        nt.name = format!("{}{sn}", names[i]);
    }
    for (i, t) in m.terms.iter_mut().enumerate() {
        t.name = format!("{}{st}", names[off + i]);
    }
    if (26..38).contains(&which) && !m.terms.is_empty() && rng.chance(0.5) {
        // the end-of-input marker's name on a *terminal*, wherever the shuffle put it
        let k = rng.below(m.terms.len());
        let taken = m.nts.iter().any(|n| n.name == "Eof") || m.terms.iter().any(|t| t.name == "Eof") || m.term_enum == "Eof";
        if !taken {
            m.terms[k].name = "Eof".to_string();
        }
    }
}

/// Name three symbols so that two *different* symbol sequences of the grammar spell the same
/// string when written without a separator: a rule suffix `X Y t...` and a rule suffix `Z t...`
/// get nX + nY == nZ (`Arg List` / `ArgList`).  Returns false when the grammar has no such pair.
pub fn concat_twin_names(m: &mut Model, rng: &mut Rng) -> bool {
    // all suffixes (position, follows-a-nonterminal)
    let mut sufs: Vec<(Vec<Sym>, bool)> = vec![];
    for nt in &m.nts {
        for p in &nt.prods {
            let syms: Vec<Sym> = p.fields.iter().map(|f| f.sym).collect();
            for i in 0..syms.len() {
                let after_nt = i > 0 && matches!(syms[i - 1], Sym::N(_));
                sufs.push((syms[i..].to_vec(), after_nt));
            }
        }
    }
    if sufs.len() > 400 {
        return false;
    }
    let mut cands: Vec<(Sym, Sym, Sym, bool)> = vec![];
    for (a, an) in &sufs {
        if a.len() < 2 || !matches!(a[1], Sym::N(_)) {
            continue;
        }
        for (b, bn) in &sufs {
            if b.len() + 1 != a.len() || b[1..] != a[2..] {
                continue;
            }
            let (x, y, z) = (a[0], a[1], b[0]);
            if z == x || z == y || matches!(x, Sym::T(_)) != matches!(z, Sym::T(_)) {
                continue;
            }
            cands.push((x, y, z, *an && *bn));
        }
    }
    if cands.is_empty() {
        return false;
    }
    let preferred: Vec<_> = cands.iter().filter(|c| c.3).cloned().collect();
    let (x, y, z, _) = if !preferred.is_empty() && rng.chance(0.8) { *rng.pick(&preferred) } else { *rng.pick(&cands) };
    let (nx, ny) = if x == y {
        let n = rng.pick_str(&["Ab", "X", "List"]);
        (n, n)
    } else {
        *rng.pick(&[("Arg", "List"), ("A", "B"), ("Expr", "_1"), ("Ab", "C"), ("X", "X1"), ("Node", "Kind")])
    };
    let nz = format!("{nx}{ny}");
    let mut set = |m: &mut Model, s: Sym, n: &str| match s {
        Sym::N(i) => m.nts[i].name = n.to_string(),
        Sym::T(i) => m.terms[i].name = n.to_string(),
    };
    set(m, x, nx);
    set(m, y, ny);
    set(m, z, &nz);
    // the three new names must not clash with anything else
    let mut all: Vec<&str> = m.nts.iter().map(|n| n.name.as_str()).chain(m.terms.iter().map(|t| t.name.as_str())).collect();
    all.push(&m.term_enum);
    let n_all = all.len();
    all.sort();
    all.dedup();
    all.len() == n_all
}

/// Terminal names that are easy to confuse: equal after snake_case conversion (`AB` / `A_b`),
/// equal up to case, proper prefixes of each other, differing only in underscores or digits.
pub fn confusable_terminal_names(m: &mut Model, rng: &mut Rng) {
    const GROUPS: &[&[&str]] = &[
        &["AB", "A_b", "Ab", "A_B", "AbC", "A_bC"],
        &["Num", "NumLit", "Num_lit", "NumLit2", "Num_", "Nu"],
        &["FooBar", "Foo_bar", "Foobar", "FOOBAR", "Foo_Bar", "FooBar_"],
        &["X", "X_", "X1", "X_1", "XX", "X__1"],
        &["IntLit", "Int_lit", "Intlit", "IntLIT", "Int", "I_nt_lit"],
    ];
    let g = rng.pick(GROUPS);
    if m.terms.len() > g.len() {
        return;
    }
    let mut names: Vec<&str> = g.to_vec();
    rng.shuffle(&mut names);
    let taken: Vec<String> = m.nts.iter().map(|n| n.name.clone()).chain(std::iter::once(m.term_enum.clone())).collect();
    if names.iter().take(m.terms.len()).any(|n| taken.iter().any(|t| t == n)) {
        return;
    }
    for (t, n) in m.terms.iter_mut().zip(names) {
        t.name = n.to_string();
    }
}

/// Build a model from a plain CFG with default names and all-skipped tuple fields.
pub fn model_from_cfg(cfg: &Cfg, force_enum: &[bool]) -> Model {
    let mut nts = vec![];
    for i in 0..cfg.nn {
        let rules: Vec<&Rule> = cfg.rules.iter().filter(|r| r.lhs == i).collect();
        let is_enum = rules.len() != 1 || force_enum.get(i).copied().unwrap_or(false);
        let prods = rules
            .iter()
            .enumerate()
            .map(|(j, r)| Prod {
                name: format!("V{j}"),
                style: if r.rhs.is_empty() {
                    Style::Empty
                } else {
                    Style::Tuple
                },
                fields: r
                    .rhs
                    .iter()
                    .enumerate()
                    .map(|(k, s)| Field {
                        sym: *s,
                        used: false,
                        name: format!("f{k}"),
                    })
                    .collect(),
            })
            .collect();
        nts.push(Nt {
            name: format!("N{i}"),
            is_enum,
            prods,
            attrs: vec![],
        });
    }
    let terms = (0..cfg.nt)
        .map(|i| Term {
            name: format!("T{i}"),
            ty: TypeExpr::Unit,
        })
        .collect();
    Model {
        nts,
        terms,
        term_enum: "Tok".to_string(),
        term_attrs: vec![],
        start: cfg.start,
        start_pos: 0,
        term_pos: cfg.nn,
    }
}

/// Parse the compact textbook notation used by the corpus:
/// `S -> L = R | R ; L -> * R | id ; R -> L`.  Capitalised words are
/// nonterminals, everything else a terminal; `!` as the only alternative means
/// "enum without variants"; an empty alternative is the empty production.
/// Rules are grouped per nonterminal in order of first appearance on a
/// left-hand side; the first left-hand side is the start symbol.
pub fn cfg_from_text(text: &str) -> (Cfg, Vec<String>, Vec<String>, Vec<bool>) {
    let mut nt_names: Vec<String> = vec![];
    let mut t_names: Vec<String> = vec![];
    let mut parsed: Vec<(String, Vec<Vec<String>>, bool)> = vec![];
    for decl in text.split(';') {
        let decl = decl.trim();
        if decl.is_empty() {
            continue;
        }
        let (lhs, rhs) = decl.split_once("->").expect("corpus syntax");
        let lhs = lhs.trim().to_string();
        let mut alts: Vec<Vec<String>> = vec![];
        let mut variantless = false;
        for alt in rhs.split('|') {
            let syms: Vec<String> = alt.split_whitespace().map(|x| x.to_string()).collect();
            if syms.len() == 1 && syms[0] == "!" {
                variantless = true;
                continue;
            }
            alts.push(syms);
        }
        if !nt_names.contains(&lhs) {
            nt_names.push(lhs.clone());
        }
        parsed.push((lhs, alts, variantless));
    }
    let is_nt = |s: &str| s.chars().next().map(|c| c.is_ascii_uppercase()).unwrap_or(false);
    // nonterminals that are only referenced: treat as variant-less enums
    for (_, alts, _) in &parsed {
        for alt in alts {
            for s in alt {
                if is_nt(s) && !nt_names.contains(s) {
                    nt_names.push(s.clone());
                }
            }
        }
    }
    let mut rules = vec![];
    let mut force_enum = vec![false; nt_names.len()];
    for (ni, name) in nt_names.iter().enumerate() {
        let mut any = false;
        for (lhs, alts, variantless) in &parsed {
            if lhs != name {
                continue;
            }
            any = true;
            if *variantless {
                force_enum[ni] = true;
            }
            for alt in alts {
                let mut rhs = vec![];
                for s in alt {
                    if is_nt(s) {
                        rhs.push(Sym::N(nt_names.iter().position(|x| x == s).unwrap()));
                    } else {
                        let ti = match t_names.iter().position(|x| x == s) {
                            Some(i) => i,
                            None => {
                                t_names.push(s.clone());
                                t_names.len() - 1
                            }
                        };
                        rhs.push(Sym::T(ti));
                    }
                }
                rules.push(Rule { lhs: ni, rhs });
            }
        }
        if !any {
            force_enum[ni] = true;
        }
    }
    (
        Cfg {
            nn: nt_names.len(),
            nt: t_names.len(),
            rules,
            start: 0,
        },
        nt_names,
        t_names,
        force_enum,
    )
}
