pub mod lalr_diff;

pub fn selftest() -> i32 {
    0
}
