pub mod compile;
pub mod emit_run;
pub mod front;
pub mod stress;
pub mod text;
pub mod lalr_diff;
pub mod oset;

/// Oracle self-tests: the reference models against published facts and against each other.
/// Returns the list of failures (empty = all passed).
pub fn selftest_failures() -> Vec<String> {
    use crate::lr::{build_reference, Class};
    use crate::model::cfg_from_text;
    let mut fails = vec![];
    if let Err(e) = crate::sha::self_test() {
        fails.push(e);
    }
    // textbook automata: (grammar, canonical LR(1) states, LALR(1) states, class)
    let book: [(&str, usize, usize, Class); 4] = [
        ("E -> E + T | T ; T -> T * F | F ; F -> ( E ) | id", 22, 12, Class::Slr),
        ("S -> L = R | R ; L -> * R | id ; R -> L", 14, 10, Class::LalrNotSlr),
        ("S -> a E a | b E b | a F b | b F a ; E -> e ; F -> e", 14, 13, Class::Lr1NotLalr),
        ("S -> C C ; C -> c C | d", 10, 7, Class::Slr),
    ];
    for (g, n_lr1, n_lalr, class) in book {
        let (cfg, _, _, _) = cfg_from_text(g);
        match build_reference(&cfg, 10_000) {
            None => fails.push(format!("reference not built for {g}")),
            Some(r) => {
                if r.lr1.states.len() != n_lr1 || r.lalr.states.len() != n_lalr || r.class() != class {
                    fails.push(format!(
                        "{g}: LR(1) {} (expected {n_lr1}), LALR(1) {} (expected {n_lalr}), class {:?} (expected {class:?})",
                        r.lr1.states.len(),
                        r.lalr.states.len(),
                        r.class()
                    ));
                }
            }
        }
    }
    // the three recognisers agree on all short strings of a few grammars
    for (_, g) in crate::gen::CORPUS.iter().take(16) {
        let (cfg, _, _, _) = cfg_from_text(g);
        let Some(r) = build_reference(&cfg, 10_000) else { continue };
        if r.lr1_conflict || cfg.nt == 0 {
            continue;
        }
        let an = crate::lr::analyse(&cfg);
        let all_productive = an.productive.iter().all(|p| *p);
        let mut words: Vec<Vec<usize>> = vec![vec![]];
        let mut level = vec![vec![]];
        for _ in 0..5 {
            let mut next = vec![];
            for w in &level {
                for t in 0..cfg.nt {
                    let mut v: Vec<usize> = w.clone();
                    v.push(t);
                    next.push(v);
                }
            }
            if next.len() > 400 {
                break;
            }
            words.extend(next.iter().cloned());
            level = next;
        }
        for w in &words {
            let o = crate::lr::lr_parse(&r.ctx, &r.lr1, w, None);
            let member = matches!(o, crate::lr::ParseOutcome::Accept(_));
            if crate::chart::chart_member(&cfg, w) != member {
                fails.push(format!("chart vs LR(1) disagree on {w:?} for {g}"));
                break;
            }
            let e = crate::chart::earley(&cfg, w);
            let ok = match (&e, &o) {
                (crate::chart::Earley::Accept, crate::lr::ParseOutcome::Accept(_)) => true,
                (crate::chart::Earley::Reject(a), crate::lr::ParseOutcome::Reject(b)) => !all_productive || a == b,
                _ => false,
            };
            if !ok {
                fails.push(format!("Earley {e:?} vs LR(1) {o:?} on {w:?} for {g}"));
                break;
            }
        }
    }
    // the Kiki grammar as data: 42 productions, 17 terminals, LR(1), and the repository examples are sentences
    let g = crate::rkiki::KikiGrammar::new();
    match build_reference(&g.cfg, 10_000) {
        None => fails.push("no reference for the Kiki grammar".into()),
        Some(r) => {
            if r.lr1_conflict || r.lalr_conflict {
                fails.push("the Kiki grammar must be LALR(1)".into());
            }
            for (path, src) in crate::rkiki::repo_example_sources() {
                match crate::rlex::lex(&src) {
                    Err(e) => fails.push(format!("R-lex rejects {path}: {e:?}")),
                    Ok(t) => {
                        let kinds: Vec<crate::rlex::K> = t.iter().map(|x| x.kind).collect();
                        if crate::rkiki::lr_verdict(&g, &r, &kinds, None) != crate::rkiki::Verdict::Accept {
                            fails.push(format!("R-kiki (LR) rejects {path}"));
                        }
                        match crate::rkiki::parse_tokens(&src, &t) {
                            Err(e) => fails.push(format!("R-kiki (predictive) rejects {path} at {e:?}")),
                            Ok(items) => {
                                if !crate::rvalidate::violations(&items).is_empty() {
                                    fails.push(format!("R-validate finds violations in {path}"));
                                }
                            }
                        }
                    }
                }
            }
        }
    }
    // R-lex on documented examples
    let lex_cases: [(&str, Result<usize, (usize, Option<char>)>); 10] = [
        ("start Foo", Ok(2)),
        ("$Comma: ()", Ok(4)),
        ("a:::b", Ok(4)),
        ("#[derive(Clone, Foo { target = Bar })] struct X", Ok(3)),
        ("// only a comment", Ok(0)),
        ("$start", Err((6, None))),
        ("$$", Err((0, Some('$')))),
        ("#[([)]]", Err((4, Some(')')))),
        ("a / b", Err((2, Some('/')))),
        ("x\u{a0}\u{2003}y é", Err((8, Some('é')))),
    ];
    for (text, exp) in lex_cases {
        let got = crate::rlex::lex(text).map(|t| t.len()).map_err(|e| (e.index, e.ch));
        if got != exp {
            fails.push(format!("R-lex on {text:?}: {got:?}, expected {exp:?}"));
        }
    }
    // get_grammar_hash rule
    if crate::engines::text::model_grammar_hash("// a\r\n// @sha256 abc\r\nfn") != Some("abc") || crate::engines::text::model_grammar_hash("x\n// @sha256 abc").is_some() {
        fails.push("model_grammar_hash".into());
    }
    fails
}

pub fn selftest() -> i32 {
    let f = selftest_failures();
    if f.is_empty() {
        println!("selftest: all oracle self-tests passed");
        0
    } else {
        for x in &f {
            println!("selftest FAILED: {x}");
        }
        2
    }
}
