pub mod emit_run;
pub mod front;
pub mod stress;
pub mod lalr_diff;

pub fn selftest() -> i32 {
    0
}
