pub mod compile;
pub mod emit_run;
pub mod front;
pub mod stress;
pub mod text;
pub mod lalr_diff;
pub mod oset;

pub fn selftest() -> i32 {
    0
}
