//! Engine `emit-run` (C01, C02, C03): grammar -> generate -> rustc -> the
//! compiled parser on many inputs, compared with the reference recognisers
//! (canonical LR(1) parser, definitional chart, Earley).

use crate::chart;
use crate::coord::{Agg, Engine, Tier, Worker};
use crate::gen::{self, Source};
use crate::kside::{self, GenOutcome};
use crate::lr::{self, ParseOutcome, Reference, Tree};
use crate::model::*;
use crate::rng::{self, Rng};
use crate::runner::{self, CompileResult};
use crate::skim;
use serde_json::{json, Map, Value};
use std::collections::{BTreeSet, HashSet};

pub struct EmitRun;

pub struct Case {
    pub source: Source,
    pub model: Model,
    pub cfg: Cfg,
    pub src: String,
    pub pay: Vec<usize>,
}

fn n_cases(tier: Tier) -> u64 {
    match tier {
        Tier::Quick => 700,
        Tier::Thorough => 30_000,
    }
}

pub fn make_case(seed: u64, _tier: Tier, idx: u64) -> Case {
    let mut rng = Rng::for_case(seed, "emit-run", idx);
    let examples = crate::rkiki::repo_example_sources();
    let n_ex = examples.len() as u64;
    let (source, mut model) = if idx < n_ex {
        // structure of a repository example, with payload types from the pool
        let items = crate::rkiki::reference_ast(&examples[idx as usize].1).ok();
        match items.and_then(|i| crate::rkiki::to_model(&i).ok()) {
            Some(mut m) => {
                for nt in &mut m.nts {
                    nt.attrs.clear();
                }
                m.term_attrs.clear();
                (Source::Corpus, m)
            }
            None => {
                let (cfg, _, _, force) = cfg_from_text(gen::CORPUS[0].1);
                (Source::Corpus, model_from_cfg(&cfg, &force))
            }
        }
    } else {
        // bias towards grammars that are accepted, have many sentences, and in which the LALR(1)
        // construction has real work to do: of several candidates keep the most "interesting" one
        let (source, cfg, force) = if idx - n_ex < gen::CORPUS.len() as u64 {
            let (cfg, _, _, force) = cfg_from_text(gen::CORPUS[(idx - n_ex) as usize].1);
            (Source::Corpus, cfg, force)
        } else if idx % 97 == 17 {
            // every variant of the big family in turn, without competition from smaller grammars
            let (c, f) = gen::big_cfg_variant(&mut rng, 200, ((idx / 97) % 7) as usize);
            (Source::Big, c, f)
        } else {
            let mut best: Option<(i64, Source, Cfg, Vec<bool>)> = None;
            for _ in 0..5 {
                let (source, cfg, force) = match rng.below(12) {
                    0..=2 => {
                        let (c, f) = gen::structured_cfg(&mut rng);
                        (Source::Structured, c, f)
                    }
                    3 => {
                        let (cfg, _, _, force) = cfg_from_text(rng.pick(gen::CORPUS).1);
                        let (c, f) = gen::embed(&mut rng, &cfg, &force);
                        (Source::CorpusEmbedded, c, f)
                    }
                    4..=6 => {
                        let (c, f) = gen::context_cfg(&mut rng);
                        (Source::SharedContexts, c, f)
                    }
                    7 => {
                        let (c, f) = gen::nested_cfg(&mut rng);
                        (Source::Nested, c, f)
                    }
                    8 if rng.chance(0.12) => {
                        let (c, f) = gen::big_cfg(&mut rng, 200);
                        (Source::Big, c, f)
                    }
                    9 => {
                        let (c, f) = gen::overlap_cfg(&mut rng);
                        (Source::Overlap, c, f)
                    }
                    _ => gen::grammar_for_case(&mut rng, u64::MAX),
                };
                let (cfg, force) = if source != Source::Big && rng.chance(0.15) { gen::add_dead_nonterminal(&cfg, &force, &mut rng) } else { (cfg, force) };
                let score = match lr::build_reference(&cfg, 3000) {
                    None => -100,
                    Some(r) if r.lalr_conflict => -50,
                    Some(r) => {
                        let an = lr::analyse(&cfg);
                        let mut sc = 3 * (r.lr1.states.len() as i64 - r.lalr.states.len() as i64).min(6);
                        if r.lalr_tighter_than_slr() {
                            sc += 4;
                        }
                        if r.class() == lr::Class::LalrNotSlr {
                            sc += 8;
                        }
                        sc += r.ctx.first.nullable.iter().filter(|x| **x).count().min(3) as i64;
                        if an.productive[cfg.start] {
                            sc += 3;
                        }
                        if source == Source::Big || source == Source::Overlap {
                            sc += 6;
                        }
                        if an.productive.iter().any(|p| !*p) {
                            sc += 5;
                        }
                        sc + rng.below(9) as i64
                    }
                };
                if best.as_ref().map(|b| score > b.0).unwrap_or(true) {
                    best = Some((score, source, cfg, force));
                }
            }
            let (_, source, cfg, force) = best.unwrap();
            (source, cfg, force)
        };
        let mut m = model_from_cfg(&cfg, &force);
        assign_random_shapes(&mut m, &mut rng, 0.6);
        if rng.chance(0.5) {
            shuffle_names(&mut m, &mut rng);
        } else if rng.chance(0.3) {
            confusable_terminal_names(&mut m, &mut rng);
        } else if rng.chance(0.3) {
            // the hostile naming of C05 (emitter vocabulary for types, variants and fields), here
            // compiled *and run*: a name coincidence that still compiles but misbehaves
            let density = *rng.pick(&[0.2, 0.5, 0.9]);
            crate::engines::compile::adversarial_names(&mut m, &mut rng, density, None);
            for nt in &mut m.nts {
                for p in &mut nt.prods {
                    if p.name == "Error" {
                        // D13 (known finding of C05): such a module does not compile
                        p.name = "Error_".into();
                    }
                }
            }
        }
        crate::model::vary_member_names(&mut m, &mut rng);
        // long records: fieldsets with 8-14 positions (index suffixes with two digits, many
        // fields of the same type), appended as extra nonterminals reachable from the start
        if rng.chance(0.35) && !m.terms.is_empty() && m.terms.len() + m.nts.len() < 20 {
            add_long_record(&mut m, &mut rng);
        }
        m.start_pos = rng.below(m.nts.len() + 1);
        m.term_pos = rng.below(m.nts.len() + 1);
        (source, m)
    };
    // payload types
    let mode = rng.below(4);
    let pay: Vec<usize> = (0..model.terms.len())
        .map(|_| match mode {
            0 => 0,
            1 => 2,
            _ => rng.below(runner::PAYLOADS.len()),
        })
        .collect();
    for (t, p) in model.terms.iter_mut().zip(&pay) {
        t.ty = runner::payload_type(*p);
    }
    model.add_debug_derives();
    let cfg = model.cfg();
    let src = model.render();
    Case {
        source,
        model,
        cfg,
        src,
        pay,
    }
}

/// Wrap the start symbol: `Rec -> f0 f1 ... f(k-1)` with k in 8..=14 fields, one of which is the old
/// start symbol and the others terminals (often the same one), random used/skipped mask;
/// the new start is `Rec` (struct) or a one-variant enum.
fn add_long_record(m: &mut Model, rng: &mut Rng) {
    let k = rng.range(8, 14);
    let at = rng.below(k);
    let same = rng.below(m.terms.len());
    let style = if rng.chance(0.6) { Style::Tuple } else { Style::Named };
    // used/skipped mask: random, or long runs of `_` fields around one or two used fields
    let pattern = rng.below(6);
    let u1 = rng.below(k);
    let u2 = rng.below(k);
    let all_same = rng.chance(0.5);
    let fields: Vec<Field> = (0..k)
        .map(|i| Field {
            sym: if i == at && !(all_same && pattern >= 3) { Sym::N(m.start) } else if all_same || rng.chance(0.7) { Sym::T(same) } else { Sym::T(rng.below(m.terms.len())) },
            used: match pattern {
                0..=2 => rng.chance(0.65),
                3 => i == u1,
                4 => i == u1 || i == u2,
                _ => i == 0 || i == k - 1,
            },
            name: format!("f{i}"),
        })
        .collect();
    let embeds_old_start = fields.iter().any(|f| f.sym == Sym::N(m.start));
    let is_enum = rng.chance(0.4) || !embeds_old_start;
    let name = format!("Rec{}", m.nts.len());
    let mut prods = vec![Prod { name: "Only".into(), style, fields }];
    if !embeds_old_start {
        // keep the old grammar reachable through a second alternative
        prods.push(Prod { name: "Old".into(), style: Style::Tuple, fields: vec![Field { sym: Sym::T(same), used: true, name: "f0".into() }, Field { sym: Sym::N(m.start), used: true, name: "f1".into() }, Field { sym: Sym::T(same), used: false, name: "f2".into() }] });
    }
    m.nts.push(Nt { name: name.clone(), is_enum, prods, attrs: vec![] });
    m.start = m.nts.len() - 1;
}

/// `{:?}` of the tree an emitted parser must return.
pub fn render_tree(t: &Tree, c: &Case, owners: &[(usize, usize)], scheme: usize, out: &mut String) {
    match t {
        Tree::Leaf { term, pos } => out.push_str(&runner::payload_debug(c.pay[*term], *term, *pos, scheme)),
        Tree::Node { rule, kids } => {
            let (ni, pi) = owners[*rule];
            let nt = &c.model.nts[ni];
            let p = &nt.prods[pi];
            out.push_str(if nt.is_enum { &p.name } else { &nt.name });
            if !p.any_used() {
                return;
            }
            match p.style {
                Style::Empty => {}
                Style::Named => {
                    out.push_str(" { ");
                    let mut first = true;
                    for (f, k) in p.fields.iter().zip(kids) {
                        if !f.used {
                            continue;
                        }
                        if !first {
                            out.push_str(", ");
                        }
                        first = false;
                        out.push_str(&f.name);
                        out.push_str(": ");
                        render_tree(k, c, owners, scheme, out);
                    }
                    out.push_str(" }");
                }
                Style::Tuple => {
                    out.push('(');
                    let mut first = true;
                    for (f, k) in p.fields.iter().zip(kids) {
                        if !f.used {
                            continue;
                        }
                        if !first {
                            out.push_str(", ");
                        }
                        first = false;
                        render_tree(k, c, owners, scheme, out);
                    }
                    out.push(')');
                }
            }
        }
    }
}

fn used_leaves(t: &Tree, c: &Case, owners: &[(usize, usize)]) -> usize {
    match t {
        Tree::Leaf { .. } => 1,
        Tree::Node { rule, kids } => {
            let (ni, pi) = owners[*rule];
            let p = &c.model.nts[ni].prods[pi];
            p.fields.iter().zip(kids).filter(|(f, _)| f.used).map(|(_, k)| used_leaves(k, c, owners)).sum()
        }
    }
}

/// Inputs for one grammar: W1 exhaustive short strings, W2 random sentences,
/// W3 prefix-extension sweep, W4 edits, W5 long sentences (thorough).
pub fn make_inputs(cfg: &Cfg, rng: &mut Rng, tier: Tier, budget: usize, sentence_bias: bool, force_long: bool) -> Vec<(Vec<usize>, &'static str)> {
    let an = lr::analyse(cfg);
    let nt = cfg.nt;
    let mut seen: HashSet<Vec<usize>> = HashSet::new();
    let mut out: Vec<(Vec<usize>, &'static str)> = vec![];
    let mut push = |w: Vec<usize>, tag: &'static str, out: &mut Vec<(Vec<usize>, &'static str)>| {
        if seen.insert(w.clone()) {
            out.push((w, tag));
        }
    };
    // W1
    push(vec![], "W1", &mut out);
    if nt > 0 {
        let mut total = 1usize;
        let mut level: Vec<Vec<usize>> = vec![vec![]];
        loop {
            let next_count = level.len() * nt;
            if total + next_count > if sentence_bias { 40 } else { tier.pick(160, 400) } {
                break;
            }
            let mut next = vec![];
            for w in &level {
                for t in 0..nt {
                    let mut v = w.clone();
                    v.push(t);
                    next.push(v);
                }
            }
            total += next.len();
            for w in &next {
                push(w.clone(), "W1", &mut out);
            }
            level = next;
        }
    }
    // W2
    let mut sentences: Vec<Vec<usize>> = vec![];
    if an.productive[cfg.start] {
        let targets: &[usize] = tier.pick(&[1, 2, 3, 4, 6, 8, 12, 16, 24, 40], &[1, 2, 3, 4, 5, 6, 8, 10, 12, 16, 20, 24, 32, 40, 60, 100]);
        for round in 0..tier.pick(3, 5) * if sentence_bias { 4 } else { 1 } {
            for t in targets {
                if let Some(s) = gen::random_sentence_mode(cfg, &an, rng, *t + round, round % 3 == 2) {
                    if s.len() <= 400 {
                        sentences.push(s);
                    }
                }
            }
        }
    }
    sentences.sort();
    sentences.dedup();
    rng.shuffle(&mut sentences);
    for s in &sentences {
        push(s.clone(), "W2", &mut out);
    }
    // W3: prefix-extension sweep over a few short sentences
    if nt > 0 {
        let mut short: Vec<&Vec<usize>> = sentences.iter().filter(|s| s.len() <= 14).collect();
        short.truncate(tier.pick(4, 10));
        for s in short {
            for cut in 0..=s.len() {
                push(s[..cut].to_vec(), "W3", &mut out);
                for t in 0..nt {
                    let mut v = s[..cut].to_vec();
                    v.push(t);
                    push(v, "W3", &mut out);
                }
            }
        }
        // W4: one- and two-token edits
        for s in sentences.iter().filter(|s| !s.is_empty() && s.len() <= 60).take(tier.pick(12, 40)) {
            for _ in 0..3 {
                let mut v = s.clone();
                for _ in 0..rng.range(1, 2) {
                    match rng.below(4) {
                        0 if !v.is_empty() => {
                            let i = rng.below(v.len());
                            v.remove(i);
                        }
                        1 => {
                            let i = rng.below(v.len() + 1);
                            v.insert(i, rng.below(nt));
                        }
                        2 if !v.is_empty() => {
                            let i = rng.below(v.len());
                            v[i] = rng.below(nt);
                        }
                        _ if v.len() >= 2 => {
                            let i = rng.below(v.len() - 1);
                            v.swap(i, i + 1);
                        }
                        _ => {}
                    }
                }
                push(v, "W4", &mut out);
            }
        }
    }
    if out.len() > budget {
        // keep a spread: all of W2 first, then the rest in order
        let mut keep: Vec<(Vec<usize>, &'static str)> = vec![];
        let mut rest = vec![];
        for x in out {
            if x.1 == "W2" || x.1 == "W3" {
                keep.push(x);
            } else {
                rest.push(x);
            }
        }
        rng.shuffle(&mut rest);
        keep.extend(rest);
        keep.truncate(budget);
        out = keep;
    }
    // W5: long sentences
    if an.productive[cfg.start] {
        let base_lens: &[usize] = tier.pick(&[500usize, 2500], &[300usize, 1000, 3000, 5000]);
        let mut lens: Vec<usize> = base_lens.to_vec();
        // now and then an input that crosses 2^16 tokens (stack depth, positions, counters of the
        // emitted parser)
        let very_long = if force_long { rng.chance(0.25) } else { rng.chance(tier.pick(0.01, 0.02)) };
        if very_long {
            lens.push(*rng.pick(&[65_530usize, 65_540, 70_000]));
        }
        for t in lens.iter().copied() {
            if t > 60_000 || force_long || rng.chance(tier.pick(0.3, 0.5)) {
                let monotone = t > 60_000 || force_long || rng.chance(0.6);
                if let Some(s) = gen::random_sentence_mode(cfg, &an, rng, t, monotone) {
                    if s.len() <= t + t / 5 + 1000 && !s.is_empty() {
                        let mut broken = s.clone();
                        out.push((s, "W5"));
                        // and a long input with an error deep inside
                        if nt > 0 {
                            let i = rng.below(broken.len());
                            broken[i] = rng.below(nt);
                            out.push((broken, "W5"));
                        }
                    }
                }
            }
        }
    }
    out
}

const FLAVOURS: [&str; 8] = ["lazy counting struct", "Vec", "iter::from_fn", "lazy counting struct that is not fused (40 further tokens behind the None)", "endless lazy source with size hint (usize::MAX, None)", "lazy source that calls parse itself (re-entrant) half-way through", "four threads parsing the same input at the same time", "the same input parsed 70 000 times in a row"];

#[derive(Debug, Clone, PartialEq, Eq)]
enum Expect {
    Ok(String),
    ErrSome(usize),
    ErrNone,
}

impl EmitRun {
    /// Every case runs on a thread with a large stack: the reference trees of inputs with tens of
    /// thousands of tokens are as deep as the input is long (rendering and dropping them recurses).
    fn run(&self, w: &mut Worker, idx: u64) {
        let r = std::thread::scope(|s| {
            std::thread::Builder::new()
                .stack_size(2 << 30)
                .spawn_scoped(s, || self.run_on_big_stack(w, idx))
                .expect("spawn case thread")
                .join()
        });
        if let Err(p) = r {
            std::panic::resume_unwind(p);
        }
    }

    fn run_on_big_stack(&self, w: &mut Worker, idx: u64) {
        let c = make_case(w.seed, w.tier, idx);
        let prop = w.prop.clone();
        let mut rng = Rng::for_case(w.seed, "emit-run-inputs", idx);
        w.count(&format!("source:{}", c.source.name()));
        let Some(r) = lr::build_reference(&c.cfg, 3000) else {
            w.count("skipped:reference-too-large");
            return;
        };
        if r.lalr_conflict {
            w.count("skipped:grammar-has-lalr-conflict");
            return;
        }
        // every fifth grammar is generated inside a build-script-like process environment (OPT_LEVEL,
        // PROFILE, TARGET ... and every variable kiki's sources read): the emitted parser must be the same
        let (out, _hc) = if idx % 5 == 3 {
            w.count("generated-inside-a-build-script-environment");
            let env = kside::build_script_env(&mut rng);
            kside::generate_in_env(&c.src, super::lalr_diff::step_limit(&r), &env)
        } else {
            kside::generate(&c.src, super::lalr_diff::step_limit(&r))
        };
        let text = match out {
            GenOutcome::Ok(t) => t,
            other => {
                w.count(&format!("masked_upstream:{}", other.class()));
                return;
            }
        };
        let dir = w.scratch.join(format!("emit-{}", w.shard));
        let main_rs = runner::driver_source(&c.model, &c.pay);
        // every third emitted module is compiled like a release build: debug assertions and overflow checks off
        let release_like = idx % 3 == 1;
        w.count(if release_like { "emitted-modules-compiled:debug-assertions-off" } else { "emitted-modules-compiled:debug-assertions-on" });
        let bin = match runner::compile_with(&dir, &text, &main_rs, false, release_like) {
            CompileResult::Ok(b) => b,
            CompileResult::Failed(stderr) => {
                // a C05 observation; for this engine the grammar is not observed
                let codes = runner::error_codes(&stderr);
                w.count(&format!("not_observed:emitted-module-does-not-compile:{}", codes.first().cloned().unwrap_or_default()));
                return;
            }
            CompileResult::Unavailable(e) => {
                w.inconclusive(&format!("rustc unavailable: {e}"));
                return;
            }
        };
        let owners = c.model.rule_owners();
        let an = lr::analyse(&c.cfg);
        let all_productive = an.productive.iter().all(|p| *p);
        // the corpus and repository-example grammars always get long pure chains (lists of hundreds of elements)
        let force_long = c.source == Source::Corpus;
        let inputs = make_inputs(&c.cfg, &mut rng, w.tier, w.tier.pick(350, 900), prop == "C02", force_long);
        // grammar classes for the evidence
        let mut classes: Vec<&str> = vec![];
        if !all_productive {
            classes.push("has-unproductive-nonterminal");
        }
        if an.reachable.iter().any(|x| !*x) {
            classes.push("has-unreachable-nonterminal");
        }
        if r.ctx.first.nullable[c.cfg.start] {
            classes.push("nullable-start");
        }
        if c.cfg.nt == 0 {
            classes.push("zero-terminals");
        }
        if c.model.nts.iter().any(|n| n.prods.is_empty()) {
            classes.push("variantless-enum");
        }
        if c.cfg.rules.iter().any(|r2| r2.rhs.len() >= 3 && r2.rhs[1..r2.rhs.len() - 1].iter().any(|s| matches!(s, Sym::N(n) if r.ctx.first.nullable[*n]))) {
            classes.push("nullable-in-the-middle");
        }
        if c.cfg.rules.iter().any(|r2| r2.rhs.first() == Some(&Sym::N(r2.lhs))) {
            classes.push("left-recursive");
        }
        if c.cfg.rules.iter().any(|r2| r2.rhs.len() >= 2 && r2.rhs.last() == Some(&Sym::N(r2.lhs))) {
            classes.push("right-recursive");
        }
        if r.class() == lr::Class::LalrNotSlr {
            classes.push("LALR-not-SLR");
        }
        for cl in &classes {
            w.count(&format!("grammar-class:{cl}"));
        }
        w.count("grammars-compiled-and-run");

        // static reading of the reduce dispatch (C01): R_i pops |rhs_i| and builds lhs_i
        if prop == "C01" {
            match skim::lex(&text).and_then(|t| skim::items(&t)).and_then(|i| skim::tables(&i).map(|t| (i, t))) {
                Ok((items, t)) => {
                    for (ri, rule) in c.cfg.rules.iter().enumerate() {
                        match skim::reduce_fn(&items, &t.reduce_fn_of_rule[ri], &t) {
                            Ok(rf) => {
                                let (ni, pi) = owners[ri];
                                let nt = &c.model.nts[ni];
                                let exp_ctor: Vec<String> = if nt.is_enum { vec![nt.name.clone(), nt.prods[pi].name.clone()] } else { vec![nt.name.clone()] };
                                let n = rule.rhs.len();
                                if rf.pops != n || rf.truncate != n || rf.ctor != exp_ctor || rf.node_variant != nt.name || rf.kind_variant != nt.name {
                                    w.violation(
                                        "reduce-function-does-not-match-its-production",
                                        &format!("rule {ri}: expected {n} pops/truncate and constructor {exp_ctor:?} of {}, emitted {rf:?}", nt.name),
                                        json!({"grammar_src": c.src, "rule": ri}),
                                    );
                                }
                                w.count("reduce-functions-read");
                            }
                            Err(_) => w.count("reduce-functions-unreadable"),
                        }
                    }
                }
                Err(_) => w.count("emitted-text-unreadable-for-static-reading"),
            }
        }

        // run every input twice: (lazy counting iterator, position payloads) and
        // (Vec or from_fn, pseudo-random payloads)
        let mut lines: Vec<String> = vec![];
        let mut meta: Vec<(usize, usize, usize)> = vec![]; // (input index, flavour, scheme)
        let mut many_calls = 0;
        for (i, (word, _)) in inputs.iter().enumerate() {
            let ks = word.iter().map(|k| k.to_string()).collect::<Vec<_>>().join(" ");
            lines.push(format!("0 0 {ks}"));
            meta.push((i, 0, 0));
            let mut fl = [1usize, 2, 3, 5][i % 4];
            if i % 8 == 7 && matches!(lr::lr_parse(&r.ctx, &r.lr1, word, None), ParseOutcome::Reject(Some(_))) {
                // must be rejected at one of its own tokens: the source may be endless behind them
                fl = 4;
            }
            if i % 48 == 10 && word.len() <= 3000 {
                fl = 6;
            }
            if word.len() <= 6 && many_calls < 2 && i % 5 == 1 {
                many_calls += 1;
                fl = 7;
            }
            lines.push(format!("{fl} 1 {ks}"));
            meta.push((i, fl, 1));
        }
        let cpu = 60 + (lines.iter().map(|l| l.len()).sum::<usize>() / 20_000) as u64;
        let rr = match runner::run_inputs(&bin, &lines, cpu) {
            Ok(rr) => rr,
            Err(e) => {
                w.inconclusive(&e);
                return;
            }
        };
        let mut cells_seen: BTreeSet<(usize, usize)> = BTreeSet::new();
        let mut err_cells: BTreeSet<(usize, usize)> = BTreeSet::new();
        let mut class_by_input: Vec<Option<bool>> = vec![None; inputs.len()];
        let ghash = c.cfg.hash64() ^ rng::hash_str(&c.src);
        for (li, (ii, flavour, scheme)) in meta.iter().enumerate() {
            let (word, wtag) = &inputs[*ii];
            let Some(got) = rr.lines.get(li) else {
                break;
            };
            // reference
            let mut cells = vec![];
            let outcome = lr::lr_parse(&r.ctx, &r.lr1, word, Some(&mut cells));
            if *scheme == 0 {
                for cell in &cells {
                    cells_seen.insert(*cell);
                }
            }
            // oracle cross-checks
            let member = matches!(outcome, ParseOutcome::Accept(_));
            if *scheme == 0 {
                if word.len() <= 40 {
                    let cm = chart::chart_member(&c.cfg, word);
                    if cm != member {
                        w.inconclusive(&format!("oracle disagreement: chart {cm} vs LR(1) {member} on {:?} for {}", word, c.cfg.show()));
                        return;
                    }
                }
                if word.len() <= 120 {
                    let e = chart::earley(&c.cfg, word);
                    let agree = match (&e, &outcome) {
                        (chart::Earley::Accept, ParseOutcome::Accept(_)) => true,
                        (chart::Earley::Reject(a), ParseOutcome::Reject(b)) => !all_productive || a == b,
                        _ => false,
                    };
                    if !agree {
                        w.inconclusive(&format!("oracle disagreement: Earley {e:?} vs LR(1) {outcome:?} on {:?} for {}", word, c.cfg.show()));
                        return;
                    }
                }
            }
            let expect = match &outcome {
                ParseOutcome::Accept(t) => {
                    if !lr::tree_is_derivation(&c.cfg, t, c.cfg.start, word) {
                        w.inconclusive("reference tree is not a derivation");
                        return;
                    }
                    let mut s = String::new();
                    render_tree(t, &c, &owners, *scheme, &mut s);
                    Expect::Ok(s)
                }
                ParseOutcome::Reject(Some(i)) => Expect::ErrSome(*i),
                ParseOutcome::Reject(None) => Expect::ErrNone,
                ParseOutcome::Conflict => {
                    w.inconclusive("reference LR(1) automaton has a conflict on an accepted grammar");
                    return;
                }
            };
            if *scheme == 0 {
                if let ParseOutcome::Reject(_) = &outcome {
                    if let Some(last) = cells.last() {
                        err_cells.insert(*last);
                    }
                }
            }
            // observed event (flavour 5 reports the nested call's result behind the outer one)
            let (got_outer, got_nested): (String, Option<String>) = match got.split_once(" ||NESTED|| ") {
                Some((a, b)) => (a.to_string(), Some(b.to_string())),
                None => (got.clone(), None),
            };
            let got = &got_outer;
            let (kind, rest) = got.split_once(' ').unwrap_or((got.as_str(), ""));
            let (pulls_s, payload) = rest.split_once(' ').unwrap_or((rest, ""));
            let pulls: Option<usize> = pulls_s.parse().ok();
            let input_desc = || json!({"grammar_src": c.src, "token_kinds": word, "token_names": word.iter().map(|k| c.model.terms[*k].name.clone()).collect::<Vec<_>>(),
                "iterator_flavour": FLAVOURS[*flavour], "payload_scheme": scheme, "workload": wtag,
                "expected": format!("{expect:?}"), "observed": crate::util::truncate(got, 2000)});
            if kind == "DIFF" {
                w.eval();
                w.violation(
                    "repeated-or-concurrent-parses-disagree",
                    "the same input parsed again (concurrently, or later in the same process) got a different answer",
                    json!({"grammar_src": c.src, "token_kinds": word, "iterator_flavour": FLAVOURS[*flavour], "observed": crate::util::truncate(got, 1500)}),
                );
                continue;
            }
            let observed_ok = kind == "OK";
            if let Some(nested) = &got_nested {
                // same input, same payload scheme: the nested call must answer exactly like the outer one
                // (which is compared with the reference below)
                // (an empty report: the outer call gave up before the source reached the point of the nested call)
                if kind != "PANIC" && !nested.is_empty() && nested != got {
                    w.violation(
                        "nested-parse-answers-differently",
                        "parse called from inside the token source of another parse (same input) returned a different result",
                        json!({"grammar_src": c.src, "token_kinds": word, "outer": crate::util::truncate(got, 800), "nested": crate::util::truncate(nested, 800)}),
                    );
                }
            }
            match prop.as_str() {
                "C01" => {
                    w.eval();
                    w.count(if member { "inputs:sentence" } else { "inputs:non-sentence" });
                    w.count(&format!("workload:{wtag}"));
                    if c.cfg.rules.len() >= 2 && !word.is_empty() {
                        w.nontrivial(rng::mix(ghash, rng::hash_bytes(&word.iter().flat_map(|x| (*x as u32).to_le_bytes()).collect::<Vec<u8>>())));
                    }
                    if kind == "PANIC" {
                        w.violation("emitted-parser-panicked", &format!("the emitted parse panicked: {rest}"), input_desc());
                    } else if !["OK", "ES", "EN"].contains(&kind) {
                        w.inconclusive(&format!("unreadable driver output {got:?}"));
                    } else if observed_ok != member {
                        w.violation(
                            if member { "sentence-rejected" } else { "non-sentence-accepted" },
                            &format!("parse returned {kind} but the input is {}a sentence of the grammar", if member { "" } else { "not " }),
                            input_desc(),
                        );
                    }
                    match class_by_input[*ii] {
                        None => class_by_input[*ii] = Some(observed_ok),
                        Some(prev) => {
                            if prev != observed_ok {
                                w.violation("payload-influences-acceptance", "the same token kinds were accepted under one payload scheme and rejected under another", input_desc());
                            }
                        }
                    }
                    if w.wants_sample(if member { "sentence" } else { "non-sentence" }) && word.len() >= 3 {
                        w.sample(if member { "sentence" } else { "non-sentence" }, input_desc());
                    }
                }
                "C02" => {
                    let Expect::Ok(exp) = &expect else {
                        w.count("not-applicable:non-sentence");
                        continue;
                    };
                    if !observed_ok {
                        w.count("masked_upstream:sentence-not-accepted");
                        continue;
                    }
                    w.eval();
                    w.count("trees-compared");
                    w.count(&format!("workload:{wtag}"));
                    if let ParseOutcome::Accept(t) = &outcome {
                        if used_leaves(t, &c, &owners) >= 2 {
                            w.nontrivial(rng::mix(ghash, rng::hash_bytes(&word.iter().flat_map(|x| (*x as u32).to_le_bytes()).collect::<Vec<u8>>())));
                        }
                    }
                    if payload != exp {
                        w.violation("tree-differs-from-derivation", "the returned tree is not the derivation tree with the original payloads", input_desc());
                    }
                    if let Some(p) = pulls {
                        if *flavour == 3 && p > word.len() {
                            // tokens behind the end of the input were pulled although the result is right:
                            // not covered by the statement, recorded only
                            w.count("observed:pulled-behind-end-of-input");
                        } else if p != word.len() {
                            w.violation("accepted-without-consuming-input", &format!("accepted after pulling {p} of {} tokens", word.len()), input_desc());
                        }
                    }
                    if w.wants_sample("tree") && word.len() >= 3 {
                        w.sample("tree", input_desc());
                    }
                }
                "C03" => {
                    if member {
                        w.count("not-applicable:sentence");
                        continue;
                    }
                    if kind == "PANIC" {
                        // "parse returns Err(..)": a panic is not a return (C01 reports it as well)
                        w.eval();
                        w.violation("panicked-instead-of-returning-an-error", &format!("the emitted parse panicked on a non-sentence: {rest}"), input_desc());
                        continue;
                    }
                    if observed_ok {
                        w.count("masked_upstream:non-sentence-not-rejected");
                        continue;
                    }
                    w.eval();
                    w.count(&format!("workload:{wtag}"));
                    w.count(&format!("iterator:{}", ["lazy-struct", "vec", "from_fn", "not-fused", "endless", "re-entrant", "four-threads", "70000-calls"][*flavour]));
                    match &expect {
                        Expect::ErrSome(i) => {
                            w.count("rejections:offending-token");
                            if *i >= 1 {
                                w.nontrivial(rng::mix(ghash, rng::hash_bytes(&word.iter().flat_map(|x| (*x as u32).to_le_bytes()).collect::<Vec<u8>>())));
                            }
                            let k = word[*i];
                            let exp_tok = format!("{}({})", c.model.terms[k].name, runner::payload_debug(c.pay[k], k, *i, *scheme));
                            if kind != "ES" {
                                w.violation("err-none-instead-of-token", &format!("expected Err(Some(token {i})), parse returned Err(None)"), input_desc());
                            } else if payload != exp_tok {
                                w.violation("wrong-offending-token", &format!("expected the token at index {i}: {exp_tok}, parse returned {payload}"), input_desc());
                            } else if let Some(p) = pulls {
                                if p != i + 1 {
                                    w.violation("pulled-beyond-offending-token", &format!("offending token at index {i} but {p} tokens were pulled from the iterator"), input_desc());
                                }
                            }
                        }
                        Expect::ErrNone => {
                            w.count("rejections:end-of-input");
                            if kind != "EN" {
                                w.violation("token-instead-of-err-none", &format!("the input is a proper prefix of a sentence; expected Err(None), parse returned Err(Some({payload}))"), input_desc());
                            } else if let Some(p) = pulls {
                                if *flavour == 3 && p > word.len() {
                                    w.count("observed:pulled-behind-end-of-input");
                                } else if p != word.len() {
                                    w.violation("wrong-pull-count-at-end", &format!("{p} tokens pulled, input has {}", word.len()), input_desc());
                                }
                            }
                        }
                        Expect::Ok(_) => {}
                    }
                    if w.wants_sample("rejection") && word.len() >= 3 {
                        w.sample("rejection", input_desc());
                    }
                }
                _ => {}
            }
        }
        if let Some(d) = &rr.death {
            // the compiled parser died on the first unanswered input
            let li = rr.lines.len();
            if let Some((ii, flavour, scheme)) = meta.get(li) {
                let (word, _) = &inputs[*ii];
                let what = format!("the compiled parser process died ({d})");
                let witness = json!({"grammar_src": c.src, "token_kinds": word, "iterator_flavour": flavour, "payload_scheme": scheme});
                if d.contains("signal Some(24)") || d.contains("signal Some(9)") {
                    if prop == "C01" {
                        w.violation("emitted-parser-exhausted-cpu-budget", &what, witness);
                    }
                } else if prop == "C01" {
                    w.violation("emitted-parser-aborted", &what, witness);
                }
            } else {
                w.inconclusive(&format!("driver died without a pending input: {d}"));
            }
        }
        w.count_n("reference-cells-exercised", cells_seen.len() as u64);
        w.count_n("reference-error-cells-exercised", err_cells.len() as u64);
        w.max("max-input-length", inputs.iter().map(|(x, _)| x.len()).max().unwrap_or(0) as u64);
        w.max("max-terminals", c.model.terms.len() as u64);
        w.max("max-nonterminals", c.model.nts.len() as u64);
        // fieldset patterns exercised
        if prop == "C02" {
            for nt in &c.model.nts {
                for p in &nt.prods {
                    let mask: String = p.fields.iter().map(|f| if f.used { 'u' } else { '_' }).collect();
                    let kinds: String = p.fields.iter().map(|f| if matches!(f.sym, Sym::T(_)) { 't' } else { 'n' }).collect();
                    w.set_insert("fieldset-patterns", format!("{}:{:?}:{}:{}", if nt.is_enum { "variant" } else { "struct" }, p.style, mask, kinds));
                }
            }
        }
    }
}

impl Engine for EmitRun {
    fn name(&self) -> &'static str {
        "emit-run"
    }
    fn total_cases(&self, _prop: &str, tier: Tier) -> u64 {
        n_cases(tier)
    }
    fn run_case(&self, w: &mut Worker, idx: u64) {
        self.run(w, idx)
    }
    fn describe_case(&self, _prop: &str, tier: Tier, seed: u64, idx: u64, _sub: u64) -> Value {
        let c = make_case(seed, tier, idx);
        json!({"class": "generated-grammar", "grammar_src": c.src})
    }
    fn rule(&self, prop: &str) -> String {
        let common = "grammars: the repository examples (structure only), the textbook corpus, combinator-built and random grammars, rendered with random fieldset styles / used-skipped masks and payload types from a pool of 12 (usize, String, user structs, Vec, Option, nested BTreeMap, unit, Option<Box<Vec>>, Vec<Option<Box<Rc>>>, pairs with equal argument lists under different callees); names: default, shuffled, confusable, emitter vocabulary, concatenation twins, the hostile pools of C05; each accepted grammar is compiled with rustc and run on: all strings up to a length bound (W1), random sentences (W2), a prefix-extension sweep p·t for every prefix p of short sentences and every terminal t (W3), 1-2 token edits (W4), long sentences up to 5000 tokens (W5, thorough); every input twice (lazy counting iterator + position payloads; Vec, iter::from_fn, a lazy iterator that is NOT fused - 40 tokens that are not part of the input follow the None -, a RE-ENTRANT source that calls parse itself on the same input half-way through (both answers must agree), FOUR THREADS parsing the same input at the same time, the same short input parsed 70 000 TIMES in a row (all answers must be one answer), or, for inputs rejected at one of their own tokens, an ENDLESS lazy source whose size hint is (usize::MAX, None) + pseudo-random payloads). One evaluation = one execution of the compiled parse()";
        match prop {
            "C01" => format!("{common}; compared with membership decided by the canonical LR(1) reference parser, cross-checked by a definitional chart recogniser (<=40 tokens) and an Earley recogniser (<=120 tokens). Distinct non-trivial = distinct (grammar, token sequence) with >=2 productions and >=1 token."),
            "C02" => format!("{common}; for accepted inputs the {{:?}} rendering of the returned tree is compared with the rendering of the reference derivation (validated by a definitional derivation checker). Distinct non-trivial = distinct (grammar, sentence) whose tree has >=2 used leaves."),
            _ => format!("{common}; for rejected inputs the returned token (kind and position payload) and the number of items pulled from the counting iterator are compared with the index at which the canonical LR(1) parser stops (cross-checked by Earley's longest viable prefix when every nonterminal is productive). Distinct non-trivial = distinct (grammar, non-sentence) rejected at index >= 1."),
        }
    }
    fn floors(&self, prop: &str, _tier: Tier, agg: &Agg) -> Vec<String> {
        let mut out = vec![];
        if agg.counter("grammars-compiled-and-run") < 50 {
            out.push(format!("only {} grammars compiled and run", agg.counter("grammars-compiled-and-run")));
        }
        match prop {
            "C01" => {
                let s = agg.counter("inputs:sentence");
                let n = agg.counter("inputs:non-sentence");
                if s * 20 < s + n {
                    out.push(format!("fewer than 5% accepted inputs ({s} of {})", s + n));
                }
            }
            "C02" => {
                if agg.counter("trees-compared") < 2000 {
                    out.push("fewer than 2000 trees compared".into());
                }
            }
            "C03" => {
                let r = agg.counter("rejections:offending-token") + agg.counter("rejections:end-of-input");
                if r < 5000 {
                    out.push(format!("only {r} rejections observed"));
                }
                if agg.counter("reference-error-cells-exercised") < 100 {
                    out.push("fewer than 100 reference error cells exercised".into());
                }
            }
            _ => {}
        }
        let not_obs = agg.counters_with_prefix("not_observed:") + agg.counters_with_prefix("masked_upstream:Err") + agg.counters_with_prefix("masked_upstream:PANIC");
        if not_obs * 5 > agg.counter("grammars-compiled-and-run") + not_obs {
            out.push(format!("{not_obs} grammars not observed (emitted module did not compile / generate failed)"));
        }
        out
    }
    fn assumptions(&self, _prop: &str) -> Vec<String> {
        vec![
            "rustc and std (derive(Debug) output format) are trusted".into(),
            "the emitted parser is observed only at its boundary (arguments, return value, counting iterator, process exit)".into(),
            "reference recognisers (canonical LR(1), chart, Earley) must agree with each other, otherwise the run is inconclusive".into(),
            "inputs are bounded to ~6000 tokens; termination is judged by the CPU budget of the child process".into(),
        ]
    }
    fn extra_coverage(&self, _prop: &str, _tier: Tier, _agg: &Agg) -> Map<String, Value> {
        Map::new()
    }
    fn cpu_budget_s(&self, _prop: &str, _tier: Tier) -> u64 {
        900
    }
}
