//! Engine `oset` (C18): operation histories on kiki::Oset vs. std BTreeSet,
//! plus the H3 invariant hook under pipeline load.

use crate::coord::{Agg, Engine, Tier, Worker};
use crate::kside;
use crate::rng::{self, Rng};
use kiki::data::machine::{Lookahead, RuleIndex, StateIndex, StateItem, Transition};
use kiki::{DollarlessTerminalName, Oset, Symbol};
use serde_json::{json, Map, Value};
use std::cmp::{Ordering, Reverse};
use std::collections::BTreeSet;
use std::fmt::Debug;

pub struct OsetEngine;

const BATCH: u64 = 32;

trait Elem: Ord + Clone + Debug + std::hash::Hash {
    fn gen(rng: &mut Rng) -> Self;
    const NAME: &'static str;
}

impl Elem for u8 {
    fn gen(rng: &mut Rng) -> u8 {
        rng.below(8) as u8
    }
    const NAME: &'static str = "u8 (8 values, dense collisions)";
}
impl Elem for i64 {
    fn gen(rng: &mut Rng) -> i64 {
        match rng.below(8) {
            0 => i64::MIN,
            1 => i64::MAX,
            2 => -1,
            3 => 0,
            _ => rng.below(40) as i64 - 20,
        }
    }
    const NAME: &'static str = "i64";
}
impl Elem for (u8, String) {
    fn gen(rng: &mut Rng) -> (u8, String) {
        (rng.below(3) as u8, rng.pick_str(&["", "a", "b", "ab", "é", "a\u{0}", "B"]).to_string())
    }
    const NAME: &'static str = "(u8, String)";
}
impl Elem for Reverse<u16> {
    fn gen(rng: &mut Rng) -> Reverse<u16> {
        Reverse(*rng.pick(&[0u16, 1, 2, 3, 255, 256, u16::MAX, 7, 9]))
    }
    const NAME: &'static str = "Reverse<u16>";
}

fn gen_symbol(rng: &mut Rng) -> Symbol {
    let n = rng.pick_str(&["A", "B", "Tok", "_q", "A1", "Z"]);
    if rng.chance(0.5) {
        Symbol::Terminal(DollarlessTerminalName::remove_dollars(n))
    } else {
        Symbol::Nonterminal(n.to_string())
    }
}
/// A zero-sized element type: every element equals every other, a set holds at most one.
impl Elem for () {
    fn gen(_rng: &mut Rng) {}
    const NAME: &'static str = "() (zero-sized)";
}

/// An element larger than a kilobyte (ordered by its key, the padding is determined by the key).
#[derive(Clone, PartialEq, Eq, PartialOrd, Ord, Hash)]
pub struct Fat {
    key: u16,
    pad: [u64; 180],
}
impl Debug for Fat {
    fn fmt(&self, f: &mut std::fmt::Formatter<'_>) -> std::fmt::Result {
        write!(f, "Fat({})", self.key)
    }
}
impl Elem for Fat {
    fn gen(rng: &mut Rng) -> Fat {
        let key = *rng.pick(&[0u16, 1, 2, 3, 5, 8, 13, 255, 256, 1000, u16::MAX]);
        Fat { key, pad: [key as u64; 180] }
    }
    const NAME: &'static str = "1448-byte struct";
}

impl Elem for Symbol {
    fn gen(rng: &mut Rng) -> Symbol {
        gen_symbol(rng)
    }
    const NAME: &'static str = "kiki::Symbol";
}
impl Elem for StateItem {
    fn gen(rng: &mut Rng) -> StateItem {
        StateItem {
            rule_index: if rng.chance(0.15) { RuleIndex::Augmented } else { RuleIndex::Original(rng.below(4)) },
            lookahead: if rng.chance(0.3) { Lookahead::Eof } else { Lookahead::Terminal(DollarlessTerminalName::remove_dollars(rng.pick_str(&["A", "B", "C"]))) },
            dot: rng.below(3),
        }
    }
    const NAME: &'static str = "kiki::data::machine::StateItem";
}
impl Elem for Transition {
    fn gen(rng: &mut Rng) -> Transition {
        Transition {
            from: StateIndex(rng.below(3)),
            to: StateIndex(rng.below(3)),
            symbol: gen_symbol(rng),
        }
    }
    const NAME: &'static str = "kiki::data::machine::Transition";
}

fn gen_vec<T: Elem>(rng: &mut Rng) -> Vec<T> {
    let n = *rng.pick(&[0usize, 0, 1, 2, 3, 5, 8, 13, 30]);
    let mut v: Vec<T> = (0..n).map(|_| T::gen(rng)).collect();
    match rng.below(5) {
        0 => v.sort(),
        1 => {
            v.sort();
            v.reverse();
        }
        2 => {
            // duplicates
            let extra: Vec<T> = v.iter().take(3).cloned().collect();
            v.extend(extra);
        }
        _ => {}
    }
    v
}

/// An iterator with the default `size_hint` (0, None).
struct NoHint<T>(std::vec::IntoIter<T>);
impl<T> Iterator for NoHint<T> {
    type Item = T;
    fn next(&mut self) -> Option<T> {
        self.0.next()
    }
}

/// Feed `v` to `f` through one of several iterator shapes (exact size hint, lower bound 0, no hint,
/// chained, flattened, reversed twice, lazily produced): a set must not care how its elements arrive.
fn with_iter_shape<T: Elem, R>(v: Vec<T>, shape: usize, f: impl FnOnce(&mut dyn Iterator<Item = T>) -> R) -> (R, &'static str) {
    match shape % 8 {
        0 => (f(&mut v.into_iter()), "vec::IntoIter"),
        1 => (f(&mut v.into_iter().filter(|_| true)), "filter (lower size hint 0)"),
        2 => (f(&mut NoHint(v.into_iter())), "custom iterator without size hint"),
        3 => {
            let mid = v.len() / 2;
            let mut a = v;
            let b = a.split_off(mid);
            (f(&mut a.into_iter().chain(b)), "chain")
        }
        4 => (f(&mut v.into_iter().map(|x| vec![x]).flat_map(|x| x)), "flat_map"),
        5 => {
            let mut it = v.into_iter();
            (f(&mut std::iter::from_fn(move || it.next())), "iter::from_fn")
        }
        6 => (f(&mut v.into_iter().rev().rev().peekable()), "rev.rev.peekable"),
        _ => (f(&mut v.into_iter().take_while(|_| true).fuse()), "take_while.fuse"),
    }
}

/// Check one live set against its model; returns a description of the first disagreement.
fn check_set<T: Elem>(s: &Oset<T>, m: &BTreeSet<T>) -> Option<String> {
    let borrowed: Vec<&T> = s.into_iter().collect();
    if borrowed.windows(2).any(|w| w[0] >= w[1]) {
        return Some(format!("iteration is not strictly increasing: {borrowed:?}"));
    }
    let model: Vec<&T> = m.iter().collect();
    if borrowed != model {
        return Some(format!("iteration yields {borrowed:?}, the elements given are {model:?}"));
    }
    let deref: &[T] = s;
    if deref.len() != m.len() || deref.iter().collect::<Vec<_>>() != model {
        return Some("deref slice differs from the element set".to_string());
    }
    let owned: Vec<T> = s.clone().into_iter().collect();
    if owned.iter().collect::<Vec<_>>() != model {
        return Some("owned iteration differs from the element set".to_string());
    }
    None
}

/// Sets of tens of thousands of elements (cardinalities around 2^8, 2^16, 2^17): built by from_iter /
/// extend / insert in a few big steps, then compared with the model through iteration, len and
/// `contains` probes spread over the whole range (present and absent elements, first, last, the
/// elements around every power of two).
fn run_large_history(w: &mut Worker, rng: &mut Rng) {
    let n = *rng.pick(&[255usize, 256, 257, 4095, 4097, 65_535, 65_536, 65_537, 70_000, 131_071, 131_073, 200_000]);
    let stride = *rng.pick(&[1i64, 2, 3, 7]);
    let mut all: Vec<i64> = (0..n as i64).map(|i| i * stride - if rng.chance(0.5) { 1_000 } else { 0 }).collect();
    all.sort();
    all.dedup();
    let model: BTreeSet<i64> = all.iter().copied().collect();
    let mut order = all.clone();
    match rng.below(3) {
        0 => {}
        1 => order.reverse(),
        _ => rng.shuffle(&mut order),
    }
    let cut = rng.below(order.len() + 1);
    let log = vec![format!("{} elements (stride {stride}); from_iter of the first {cut} in {} order, extend with the rest, 50 single inserts", order.len(), ["ascending", "descending", "random"][0])];
    let mut set: Oset<i64> = order[..cut].iter().copied().collect();
    let rest: Vec<i64> = order[cut..].to_vec();
    let tail = rest.len().saturating_sub(50);
    set.extend(rest[..tail].iter().copied());
    for x in &rest[tail..] {
        set.insert(*x);
    }
    let fail = |w: &mut Worker, sig: &str, what: String| {
        w.violation(sig, &what, json!({"element_type": "i64 (large cardinality)", "history": log}));
    };
    let got: Vec<i64> = set.iter().copied().collect();
    if got.len() != model.len() || !got.iter().zip(model.iter()).all(|(a, b)| a == b) {
        fail(w, "elements-differ", format!("iteration yields {} elements, the model has {}", got.len(), model.len()));
        return;
    }
    let mut probes: Vec<i64> = vec![all[0], all[all.len() - 1], all[0] - 1, all[all.len() - 1] + 1];
    let mut p = 1usize;
    while p < all.len() {
        for q in [p - 1, p, p + 1] {
            if q < all.len() {
                probes.push(all[q]);
                probes.push(all[q] + 1);
            }
        }
        p *= 2;
    }
    for _ in 0..400 {
        let x = *rng.pick(&all);
        probes.push(x);
        probes.push(x + 1);
    }
    for x in probes {
        if set.contains(&x) != model.contains(&x) {
            fail(w, "contains-wrong", format!("contains({x}) = {}, the model says {} (set of {} elements)", set.contains(&x), model.contains(&x), model.len()));
            return;
        }
    }
    let rebuilt: Oset<i64> = all.iter().rev().copied().collect();
    if rebuilt != set || rebuilt.cmp(&set) != Ordering::Equal {
        fail(w, "equality-not-by-element-set", "a set rebuilt from the same elements in another order is not equal".to_string());
        return;
    }
    w.count("large-cardinality-histories");
    w.max("max-set-cardinality", model.len() as u64);
}

fn run_history<T: Elem>(w: &mut Worker, rng: &mut Rng, n_ops: usize) {
    let k = rng.range(1, 4);
    let mut sets: Vec<Oset<T>> = (0..k).map(|_| Oset::new()).collect();
    let mut models: Vec<BTreeSet<T>> = (0..k).map(|_| BTreeSet::new()).collect();
    let mut log: Vec<String> = vec![];
    let mut ops_done = 0u64;
    let fail = |w: &mut Worker, sig: &str, what: String, log: &Vec<String>| {
        w.violation(sig, &what, json!({"element_type": T::NAME, "history": log}));
    };
    for _ in 0..n_ops {
        let i = rng.below(k);
        match rng.below(9) {
            0 => {
                sets[i] = Oset::new();
                models[i].clear();
                log.push(format!("s{i} = Oset::new()"));
            }
            1 => {
                let v: Vec<T> = gen_vec(rng);
                models[i] = v.iter().cloned().collect();
                let shape = rng.below(8);
                let dbg = format!("{v:?}");
                let (set, how) = with_iter_shape(v, shape, |it| it.collect::<Oset<T>>());
                log.push(format!("s{i} = Oset::from_iter({dbg} via {how})"));
                sets[i] = set;
            }
            2 | 3 => {
                let x = T::gen(rng);
                log.push(format!("s{i}.insert({x:?})"));
                models[i].insert(x.clone());
                sets[i].insert(x);
            }
            4 => {
                let v: Vec<T> = gen_vec(rng);
                models[i].extend(v.iter().cloned());
                let shape = rng.below(8);
                let dbg = format!("{v:?}");
                let set = &mut sets[i];
                let (_, how) = with_iter_shape(v, shape, |it| set.extend(it));
                log.push(format!("s{i}.extend({dbg} via {how})"));
            }
            5 => {
                let j = rng.below(k);
                log.push(format!("s{i} = s{j}.clone()"));
                sets[i] = sets[j].clone();
                models[i] = models[j].clone();
            }
            6 => {
                let x = T::gen(rng);
                log.push(format!("s{i}.contains({x:?})"));
                let got = sets[i].contains(&x);
                if got != models[i].contains(&x) {
                    fail(w, "contains-wrong", format!("contains({x:?}) returned {got}"), &log);
                    return;
                }
            }
            7 => {
                // extend a set with the elements of another live set
                let j = rng.below(k);
                let v: Vec<T> = models[j].iter().cloned().collect();
                log.push(format!("s{i}.extend(s{j} elements)"));
                models[i].extend(v.iter().cloned());
                sets[i].extend(v);
            }
            _ => {
                // comparison of a pair, and of rebuilt copies (different histories, same elements)
                let j = rng.below(k);
                log.push(format!("compare s{i} s{j}"));
                let rebuild = |m: &BTreeSet<T>, rng: &mut Rng| -> Oset<T> {
                    let mut v: Vec<T> = m.iter().cloned().collect();
                    rng.shuffle(&mut v);
                    let mut s = Oset::new();
                    for x in v {
                        s.insert(x);
                    }
                    s
                };
                let (a, b) = (&sets[i], &sets[j]);
                let (ra, rb) = (rebuild(&models[i], rng), rebuild(&models[j], rng));
                let eq_model = models[i] == models[j];
                if (a == b) != eq_model || (ra == rb) != eq_model || (*a == rb) != eq_model {
                    fail(w, "equality-not-by-element-set", format!("a == b is {}, element sets equal is {eq_model}", a == b), &log);
                    return;
                }
                let c = a.cmp(b);
                if c != ra.cmp(&rb) || c != a.cmp(&rb) || c != ra.cmp(b) {
                    fail(w, "ordering-depends-on-history", format!("cmp gives {c:?} for the sets and {:?} for sets rebuilt from the same elements", ra.cmp(&rb)), &log);
                    return;
                }
                if c != b.cmp(a).reverse() || (c == Ordering::Equal) != eq_model || a.partial_cmp(b) != Some(c) {
                    fail(w, "ordering-laws-broken", format!("cmp(a,b) = {c:?}, cmp(b,a) = {:?}, equal sets: {eq_model}", b.cmp(a)), &log);
                    return;
                }
                // the comparison operators and the hash follow == and cmp
                let ops_ok = (a < b) == (c == Ordering::Less)
                    && (a <= b) == (c != Ordering::Greater)
                    && (a > b) == (c == Ordering::Greater)
                    && (a >= b) == (c != Ordering::Less)
                    && (a != b) == !eq_model;
                if !ops_ok {
                    fail(w, "comparison-operators-disagree-with-cmp", format!("cmp(a,b) = {c:?}, a<b {}, a<=b {}, a>b {}, a>=b {}, a!=b {}", a < b, a <= b, a > b, a >= b, a != b), &log);
                    return;
                }
                let h = |s: &Oset<T>| {
                    use std::hash::{Hash, Hasher};
                    let mut hs = std::collections::hash_map::DefaultHasher::new();
                    s.hash(&mut hs);
                    hs.finish()
                };
                // (Hash and Debug are not part of the property: observed and counted, never a verdict)
                if eq_model {
                    w.count(if h(a) == h(b) && h(a) == h(&ra) { "observed:equal-sets-hash-equally" } else { "observed:equal-sets-hash-differently" });
                }
                w.count(if format!("{a:?}") == format!("{ra:?}") { "observed:debug-independent-of-history" } else { "observed:debug-depends-on-history" });
                if a.clone() != *a {
                    fail(w, "clone-differs-from-original", format!("{a:?}"), &log);
                    return;
                }
                // transitivity through a third live set
                let l = rng.below(k);
                let (bc, ac) = (b.cmp(&sets[l]), a.cmp(&sets[l]));
                if (c != Ordering::Greater && bc != Ordering::Greater && ac == Ordering::Greater) || (c != Ordering::Less && bc != Ordering::Less && ac == Ordering::Less) {
                    fail(w, "ordering-not-transitive", format!("cmp(a,b) = {c:?}, cmp(b,c) = {bc:?}, cmp(a,c) = {ac:?}"), &log);
                    return;
                }
                if c == models[i].cmp(&models[j]) {
                    w.count("order-is-lexicographic-by-sorted-elements");
                }
                w.count("pairs-compared");
            }
        }
        ops_done += 1;
        for (s, m) in sets.iter().zip(&models) {
            if let Some(d) = check_set(s, m) {
                let sig = if d.starts_with("iteration is not strictly") { "not-strictly-increasing" } else { "elements-differ" };
                fail(w, sig, d, &log);
                return;
            }
        }
    }
    w.eval();
    w.count_n("operations", ops_done);
    w.count(&format!("element-type:{}", T::NAME));
    w.max("max-live-set-size", models.iter().map(|m| m.len()).max().unwrap_or(0) as u64);
    if ops_done >= 10 {
        w.nontrivial(rng::hash_str(&log.join(";")));
    }
    if w.wants_sample(T::NAME) && log.len() >= 8 {
        w.sample(T::NAME, json!({"element_type": T::NAME, "history": log.iter().take(14).collect::<Vec<_>>(), "ops": log.len()}));
    }
}

impl Engine for OsetEngine {
    fn name(&self) -> &'static str {
        "oset"
    }
    fn total_cases(&self, _prop: &str, tier: Tier) -> u64 {
        tier.pick(1_500, 600_000)
    }
    fn run_case(&self, w: &mut Worker, idx: u64) {
        for sub in 0..BATCH {
            w.sub(sub);
            let n = idx * BATCH + sub;
            let mut rng = Rng::for_case(w.seed, "oset", n);
            if n % 8 == 7 {
                // H3 under pipeline load: the real element types inside the automaton construction
                let c = super::lalr_diff::make_case(w.seed, Tier::Quick, 1000 + n, &crate::gen::SmallScope::new());
                // (a step limit derived from the reference automaton: a set that loses elements can keep the
                // construction going for ever)
                let Some(r) = crate::lr::build_reference(&c.cfg, 3000) else {
                    w.count("skipped:reference-too-large");
                    continue;
                };
                let (out, hc) = kside::generate(&c.src, super::lalr_diff::step_limit(&r));
                w.eval();
                w.count("pipeline-runs-with-invariant-hook");
                w.count_n("invariant-checks-inside-pipeline", hc.oset_checks);
                if let kside::GenOutcome::Panic(p) = &out {
                    if p.message.starts_with("KIKI_VERIF_OSET") {
                        w.violation("invariant-hook-fired-in-pipeline", &p.message, json!({"grammar_src": c.src}));
                    }
                }
                continue;
            }
            let n_ops = *rng.pick(&[5usize, 10, 20, 40, 80, 200]);
            kiki::verif_hooks::reset(u64::MAX);
            let r = crate::util::catch(|| {
                let mut rng2 = rng.clone();
                if n % 97 == 11 {
                    run_large_history(w, &mut rng2);
                    return;
                }
                match n % 9 {
                    0 => run_history::<u8>(w, &mut rng2, n_ops),
                    1 => run_history::<i64>(w, &mut rng2, n_ops),
                    2 => run_history::<(u8, String)>(w, &mut rng2, n_ops),
                    3 => run_history::<Reverse<u16>>(w, &mut rng2, n_ops),
                    4 => run_history::<Symbol>(w, &mut rng2, n_ops),
                    5 => run_history::<StateItem>(w, &mut rng2, n_ops),
                    6 => run_history::<Transition>(w, &mut rng2, n_ops),
                    7 => run_history::<Fat>(w, &mut rng2, n_ops.min(60)),
                    _ => run_history::<()>(w, &mut rng2, n_ops.min(40)),
                }
            });
            w.count_n("invariant-checks-in-histories", kiki::verif_hooks::oset_checks());
            if let Err(p) = r {
                let sig = if p.message.starts_with("KIKI_VERIF_OSET") { "invariant-hook-fired" } else { "oset-operation-panicked" };
                w.violation(sig, &format!("{} @ {}", p.message, p.location), json!({"history_case": n}));
            }
        }
    }
    fn describe_case(&self, _prop: &str, _tier: Tier, _seed: u64, idx: u64, sub: u64) -> Value {
        json!({"class": "oset-history", "batch": idx, "sub": sub})
    }
    fn rule(&self, _prop: &str) -> String {
        "histories of 5-200 operations (new, from_iter, insert, extend, clone, contains, extend-from-other-set, pair comparison; from_iter and extend receive their elements through 8 iterator shapes: exact size hint, lower bound 0, no hint, chain, flat_map, from_fn, peekable, fuse) over 1-4 live sets, element types u8 (8 values), i64 (with extremes), (u8,String), Reverse<u16>, kiki's Symbol, StateItem and Transition, a 1448-byte struct and the zero-sized (); every 97th history instead builds ONE large set (255 .. 200 000 elements, cardinalities around 2^8, 2^12, 2^16, 2^17) in a few big steps and probes contains over the whole range; inputs with duplicates, ascending and descending runs, empties. After every operation every live set is compared with a std BTreeSet model: borrowed, owned and deref iteration strictly increasing and equal to the model, contains, len; pair comparisons check == against set equality, cmp against sets rebuilt along different histories from the same elements, and the order laws (antisymmetry, Equal iff equal, transitivity through a third set, the operators < <= > >= != and partial_cmp agreeing with cmp, a clone equal to its original; Hash and Debug consistency is observed and counted but is not part of the property). One evaluation = one history (or one pipeline run with the H3 invariant hook armed on the real element types). Distinct non-trivial = distinct histories with >= 10 operations.".into()
    }
    fn floors(&self, _prop: &str, _tier: Tier, agg: &Agg) -> Vec<String> {
        let mut out = vec![];
        if agg.counter("pairs-compared") < 1000 {
            out.push("fewer than 1000 pair comparisons".into());
        }
        if agg.counter("invariant-checks-inside-pipeline") < 10_000 {
            out.push("H3 hook observed fewer than 10000 Oset mutations inside the pipeline".into());
        }
        out
    }
    fn assumptions(&self, _prop: &str) -> Vec<String> {
        vec!["std BTreeSet is the model of a mathematical set".into(), "element types are totally ordered (lawful Ord)".into()]
    }
    fn extra_coverage(&self, _prop: &str, _tier: Tier, _agg: &Agg) -> Map<String, Value> {
        Map::new()
    }
}
