//! Engine `front` (C07, C08, C09, C10): hostile text -> tokenizer / front-end
//! parser / validator vs. the references R-lex, R-kiki, R-validate; totality.

use crate::coord::{Agg, Engine, Tier, Worker};
use crate::gtext;
use crate::kside::{self, GenOutcome};
use crate::lr;
use crate::rkiki::{self, KikiGrammar, Verdict};
use crate::rlex::{self, K};
use crate::rng::{self, Rng};
use crate::rvalidate;
use kiki::KikiErr;
use serde_json::{json, Map, Value};
use std::collections::BTreeSet;

pub struct Front;

const BATCH: u64 = 64;

thread_local! {
    static KG: KikiGrammar = KikiGrammar::new();
}

struct KikiRef {
    g: KikiGrammar,
}

fn with_kiki_reference<T>(f: impl FnOnce(&KikiGrammar, &lr::Reference) -> T) -> T {
    thread_local! { static G: &'static KikiGrammar = Box::leak(Box::new(KikiGrammar::new())); }
    thread_local! { static R: &'static lr::Reference<'static> = {
        let g: &'static KikiGrammar = G.with(|g| *g);
        Box::leak(Box::new(lr::build_reference(&g.cfg, 10_000).expect("reference for the Kiki grammar")))
    }; }
    let g = G.with(|g| *g);
    let r = R.with(|r| *r);
    f(g, r)
}

fn valid_sources() -> &'static Vec<String> {
    thread_local! { static V: &'static Vec<String> = Box::leak(Box::new(rkiki::repo_example_sources().into_iter().map(|x| x.1).collect())); }
    V.with(|v| *v)
}

fn n_batches(prop: &str, tier: Tier) -> u64 {
    match (prop, tier) {
        ("C08", Tier::Quick) => 8_000,
        ("C08", Tier::Thorough) => 300_000,
        ("C09", Tier::Quick) => 1_500,
        ("C09", Tier::Thorough) => 120_000,
        ("C10", Tier::Quick) => 2_500,
        ("C10", Tier::Thorough) => 300_000,
        ("C07", Tier::Quick) => 7_000,
        ("C07", Tier::Thorough) => 900_000,
        _ => 100,
    }
}

// ---------------------------------------------------------------------------
// Exhaustive code-point sweep (C08): every Unicode scalar value in every state of the tokenizer that
// a single character can be met in.  A tokenizer that treats *any* set of code points specially in
// *any* of these contexts disagrees with the reference scanner on at least one of these texts.

pub const SWEEP_CPS_PER_CASE: u64 = 4096;
pub const SWEEP_CASES: u64 = 0x11_0000 / SWEEP_CPS_PER_CASE;
/// Contexts with one text per code point: (name, text before, text after).
const SWEEP_SINGLE: &[(&str, &str, &str)] = &[
    ("start-of-text", "", "A"),
    ("inside-identifier", "A", "B"),
    ("after-dollar", "$", "x"),
    ("after-slash", "/", "/x\nA"),
    ("after-hash", "#", "[a]"),
    ("after-colon", ":", ":A"),
    ("after-terminal-identifier", "$Ab", " A"),
];
/// Contexts in which 256 code points share one text (one line each): (name, line before, line after).
const SWEEP_BATCHED: &[(&str, &str, &str)] = &[
    ("inside-comment", "// x", "y // z\nA\n"),
    ("inside-attribute", "#[a(", ")b]\n"),
    ("inside-attribute-string", "#[d = \"", "\"]\n"),
    ("inside-nested-attribute-brackets", "#[a{[(", ")]}]\n"),
];
pub const SWEEP_SUBS_PER_CASE: u64 = SWEEP_SINGLE.len() as u64 * SWEEP_CPS_PER_CASE + SWEEP_BATCHED.len() as u64 * (SWEEP_CPS_PER_CASE / 256);

/// The `j`-th text of sweep case `k`: (class, text); None where the range holds no scalar value.
pub fn sweep_text(k: u64, j: u64) -> Option<(String, String)> {
    let singles = SWEEP_SINGLE.len() as u64 * SWEEP_CPS_PER_CASE;
    if j < singles {
        let (name, pre, post) = SWEEP_SINGLE[(j / SWEEP_CPS_PER_CASE) as usize];
        let cp = (k * SWEEP_CPS_PER_CASE + j % SWEEP_CPS_PER_CASE) as u32;
        let c = char::from_u32(cp)?;
        return Some((format!("code-point-sweep:{name}"), format!("{pre}{c}{post}")));
    }
    let b = j - singles;
    let per = SWEEP_CPS_PER_CASE / 256;
    if b >= SWEEP_BATCHED.len() as u64 * per {
        return None;
    }
    let (name, pre, post) = SWEEP_BATCHED[(b / per) as usize];
    let base = k * SWEEP_CPS_PER_CASE + (b % per) * 256;
    let mut text = String::new();
    for cp in base..base + 256 {
        if let Some(c) = char::from_u32(cp as u32) {
            text.push_str(pre);
            text.push(c);
            text.push_str(post);
        }
    }
    if text.is_empty() {
        return None;
    }
    Some((format!("code-point-sweep:{name}"), text))
}

/// A random syntactically valid file with varied syntax: a sentence of the Kiki grammar itself.
fn random_valid_tokens(rng: &mut Rng) -> Vec<(K, String)> {
    with_kiki_reference(|g, _| {
        let target = *rng.pick(&[3usize, 8, 15, 30, 60, 120]);
        let kinds = gtext::kiki_sentence(g, rng, target);
        kinds.into_iter().map(|k| (k, gtext::token_text(k, rng))).collect()
    })
}

/// A valid file in which the number of something sits on a threshold (items, fields of one fieldset,
/// variants, terminals, path segments, type arguments, attributes).
fn sized_valid_file(rng: &mut Rng) -> String {
    let n = *rng.pick(&[9usize, 10, 11, 15, 16, 17, 31, 32, 33, 63, 64, 65, 99, 100, 101, 127, 128, 129, 255, 256, 257]);
    match rng.below(10) {
        7..=9 => {
            // type nesting depth on a threshold, the nested type in any argument position
            // (the deepest parse stacks a Kiki file can produce)
            let d = *rng.pick(&[3usize, 9, 17, 33, 64, 65, 100, 127, 128, 129, 130, 131, 132, 160, 200, 255, 256, 257, 300]);
            let t = crate::model::deep_type(rng, d);
            format!("start S\nstruct S($A)\nterminal Tok {{ $B: u8 $A: {} $C: () }}\n", t.text())
        }
        0 => {
            let mut s = String::from("start S0\nterminal Tok { $A: () }\n");
            for i in 0..n.saturating_sub(2) {
                s.push_str(&format!("struct S{i}\n"));
            }
            s
        }
        1 => format!("start S\nstruct S({})\nterminal Tok {{ $A: () }}\n", (0..n).map(|i| if i % 3 == 0 { "_: $A " } else { "$A " }).collect::<String>()),
        2 => format!("start S\nstruct S {{ {} }}\nterminal Tok {{ $A: () }}\n", (0..n).map(|i| if i % 4 == 1 { "_: $A ".to_string() } else { format!("f{i}: $A ") }).collect::<String>()),
        3 => format!("start S\nenum S {{ {} }}\nterminal Tok {{ $A: () $B: () }}\n", (0..n).map(|i| format!("V{i}({}) ", "$A ".repeat(i % 5) + "$B")).collect::<String>()),
        4 => format!("start S\nstruct S($T0)\nterminal Tok {{ {} }}\n", (0..n).map(|i| format!("$T{i}: () ")).collect::<String>()),
        5 => format!("start S\nstruct S($A)\nterminal Tok {{ $A: a{} }}\n", "::b".repeat(n - 1)),
        _ => format!("start S\n{}struct S($A)\nterminal Tok {{ $A: m<{}> }}\n", "#[x]\n".repeat(n % 40), (0..n).map(|i| format!("t{i}")).collect::<Vec<_>>().join(", ")),
    }
}

fn some_valid_tokens(rng: &mut Rng) -> Vec<(K, String)> {
    if rng.below(20) == 0 {
        if let Some(t) = gtext::tokens_of(&sized_valid_file(rng)) {
            return t;
        }
    }
    let v = valid_sources();
    if !v.is_empty() && rng.chance(0.35) {
        let src = rng.pick(v);
        if let Some(mut t) = gtext::tokens_of(src) {
            if rng.chance(0.5) && !t.is_empty() {
                let cut = rng.below(t.len() + 1);
                t.truncate(cut);
            }
            return t;
        }
    }
    if rng.chance(0.3) {
        // a generated grammar model
        let (_, cfg, force) = crate::gen::small_grammar(rng);
        let mut m = crate::model::model_from_cfg(&cfg, &force);
        crate::model::assign_random_shapes(&mut m, rng, 0.5);
        if let Some(t) = gtext::tokens_of(&m.render()) {
            return t;
        }
    }
    random_valid_tokens(rng)
}

/// The `sub`-th input of batch `idx` for a property: (class, text).
pub fn input_for(prop: &str, tier: Tier, seed: u64, idx: u64, sub: u64) -> (String, String) {
    let (class, text) = input_for_unpadded(prop, tier, seed, idx, sub);
    // now and then everything is moved behind a long comment, so that byte positions cross 2^8, 2^12,
    // 10^4, 2^15 ... (positions flow into tokens, spans and every error message)
    let mut rng = Rng::for_case(seed, &format!("front-pad-{prop}"), idx * BATCH + sub);
    if prop != "C07" && idx * BATCH + sub > 400 && rng.below(40) == 0 {
        let padded = format!("{}{}", gtext::position_padding(&mut rng), text);
        // (C07 is stated for sources up to 64 KiB)
        if !prop.starts_with("C07") || padded.len() <= super::stress::MAX_BYTES {
            return (format!("{class}+padded"), padded);
        }
    }
    (class, text)
}

fn input_for_unpadded(prop: &str, tier: Tier, seed: u64, idx: u64, sub: u64) -> (String, String) {
    let mut rng = Rng::for_case(seed, &format!("front-{prop}"), idx * BATCH + sub);
    let n = idx * BATCH + sub;
    let a = gtext::ATOMS.len() as u64;
    match prop {
        "C08" | "C07-lex" => {
            // hand-picked special texts, then exhaustive small strings
            let specials = gtext::special_texts();
            if (n as usize) < specials.len() {
                return ("special".into(), specials[n as usize].clone());
            }
            let n = n - specials.len() as u64;
            if n < a {
                return ("atoms-1".into(), gtext::atom_string(n, 1));
            }
            if n < a + a * a {
                return ("atoms-2".into(), gtext::atom_string(n - a, 2));
            }
            if tier == Tier::Thorough && n < a + a * a + a * a * a {
                return ("atoms-3".into(), gtext::atom_string(n - a - a * a, 3));
            }
            match rng.below(10) {
                0..=4 => {
                    let max = *rng.pick(&[2usize, 3, 4, 6, 8, 12, 20, 32, 64]);
                    ("soup".into(), gtext::soup(&mut rng, max))
                }
                5..=6 => {
                    let toks = some_valid_tokens(&mut rng);
                    let texts: Vec<String> = toks.into_iter().map(|t| t.1).collect();
                    let (s, _) = gtext::join_tokens(&texts, &mut rng, gtext::SEPARATORS);
                    let e = rng.range(1, 3);
                    ("valid-file-char-edits".into(), gtext::edit_chars(&s, &mut rng, e))
                }
                7 => {
                    let toks = some_valid_tokens(&mut rng);
                    let texts: Vec<String> = toks.into_iter().map(|t| t.1).collect();
                    let (s, _) = gtext::join_tokens(&texts, &mut rng, gtext::SEPARATORS);
                    let cuts: Vec<usize> = s.char_indices().map(|(i, _)| i).collect();
                    let cut = if cuts.is_empty() { 0 } else { *rng.pick(&cuts) };
                    ("valid-file-prefix".into(), s[..cut].to_string())
                }
                8 => {
                    // attribute-centred soup
                    let mut s = String::from(*rng.pick(&["", " ", "struct A ", "é ", "a\n"]));
                    s.push_str("#[");
                    for _ in 0..rng.range(0, 10) {
                        s.push_str(rng.pick_str(&["(", ")", "[", "]", "{", "}", "a", " ", "é", "中", "𝄞", "\n", "\"", "//", "#", "$", "=", ",", "\t", "\r"]));
                    }
                    s.push_str(rng.pick_str(&["]", "", "]]", "] x", ")"]));
                    ("attribute-soup".into(), s)
                }
                _ => {
                    let mut toks: Vec<(K, String)> = (0..rng.range(1, 12)).map(|_| {
                        let k = *rng.pick(&rlex::ALL_KINDS);
                        (k, gtext::token_text(k, &mut rng))
                    }).collect();
                    let e = rng.below(2);
                    gtext::edit_tokens(&mut toks, &mut rng, e);
                    let texts: Vec<String> = toks.into_iter().map(|t| t.1).collect();
                    // deliberately also without separators: maximal munch
                    let s = if rng.chance(0.5) { texts.join("") } else { gtext::join_tokens(&texts, &mut rng, gtext::SEPARATORS).0 };
                    ("token-soup".into(), s)
                }
            }
        }
        "C09" | "C07-parse" => {
            if prop == "C09" && n > 300 && rng.below(1500) == 0 {
                // tens of thousands of tokens, then an error (or the end of the file) – token
                // counts and positions beyond 2^16 without the cost of a huge automaton
                let k = *rng.pick(&[21_840usize, 21_850, 32_770, 65_530, 65_540, 70_000]);
                let body = match rng.below(3) {
                    0 => format!("start S\nstruct S(\n{}", "$A ".repeat(k)),
                    // (distinct names: the reference validator lists *all* clashing pairs)
                    1 => format!("start S\nenum S {{\n{}", (0..k / 4).map(|i| format!("V{i}($A)\n")).collect::<String>()),
                    _ => format!("start S\nterminal T {{\n{}", (0..k / 8).map(|i| format!("$A{i}: a::b<c>\n")).collect::<String>()),
                };
                let tail = rng.pick_str(&["", "<", ")", "}", "start", "$B:", "_", "#[x]", "::", ","]);
                return ("long-file-with-late-error".into(), format!("{body}{tail}"));
            }
            // prefix-extension sweep over valid files, token edits, token soup
            match rng.below(10) {
                0..=3 => {
                    let mut toks = some_valid_tokens(&mut rng);
                    let cut = rng.below(toks.len() + 1);
                    toks.truncate(cut);
                    if rng.chance(0.9) {
                        let k = *rng.pick(&rlex::ALL_KINDS);
                        toks.push((k, gtext::token_text(k, &mut rng)));
                    }
                    let texts: Vec<String> = toks.into_iter().map(|t| t.1).collect();
                    ("prefix-extension".into(), gtext::join_tokens(&texts, &mut rng, gtext::SEPARATORS).0)
                }
                4..=6 => {
                    let mut toks = some_valid_tokens(&mut rng);
                    let e = *rng.pick(&[0usize, 1, 1, 2, 3]);
                    gtext::edit_tokens(&mut toks, &mut rng, e);
                    let texts: Vec<String> = toks.into_iter().map(|t| t.1).collect();
                    ("token-edits".into(), gtext::join_tokens(&texts, &mut rng, gtext::SEPARATORS).0)
                }
                7..=8 => {
                    let toks = random_valid_tokens(&mut rng);
                    let texts: Vec<String> = toks.into_iter().map(|t| t.1).collect();
                    ("random-valid-file".into(), gtext::join_tokens(&texts, &mut rng, gtext::SEPARATORS).0)
                }
                _ => {
                    let toks: Vec<String> = (0..rng.range(1, 10)).map(|_| {
                        let k = *rng.pick(&rlex::ALL_KINDS);
                        gtext::token_text(k, &mut rng)
                    }).collect();
                    ("token-soup".into(), gtext::join_tokens(&toks, &mut rng, gtext::SEPARATORS).0)
                }
            }
        }
        "C10" | "C07-validate" => {
            if rng.chance(0.45) {
                return ("pool-file".into(), gtext::pool_file(&mut rng));
            }
            if rng.chance(0.2) {
                // several simultaneous violations of one kind
                let (_, cfg, force) = crate::gen::small_grammar(&mut rng);
                let mut m = crate::model::model_from_cfg(&cfg, &force);
                crate::model::assign_random_shapes(&mut m, &mut rng, 0.5);
                if let Ok(mut items) = rkiki::reference_ast(&m.render()) {
                    let tag = gtext::inject_many(&mut items, &mut rng);
                    if rng.chance(0.3) {
                        gtext::decorate_items(&mut items, &mut rng);
                    }
                    return (format!("multi+{tag}"), gtext::render_items(&items));
                }
            }
            // a valid model with 0-3 injected violations
            let (_, cfg, force) = crate::gen::small_grammar(&mut rng);
            let mut m = crate::model::model_from_cfg(&cfg, &force);
            crate::model::assign_random_shapes(&mut m, &mut rng, 0.5);
            if rng.chance(0.4) {
                crate::model::shuffle_names(&mut m, &mut rng);
            }
            m.start_pos = rng.below(m.nts.len() + 1);
            m.term_pos = rng.below(m.nts.len() + 1);
            if rng.chance(0.3) {
                m.term_enum = "Terminal2".into();
            }
            let src = m.render();
            let Ok(mut items) = rkiki::reference_ast(&src) else {
                return ("model".into(), src);
            };
            let k = *rng.pick(&[0usize, 1, 1, 1, 2, 2, 3]);
            let mut tags = vec![];
            for _ in 0..k {
                tags.push(gtext::inject(&mut items, &mut rng));
            }
            if rng.chance(0.3) {
                // attributes (lint allows, derives ...) on the declarations: validation must not care
                gtext::decorate_items(&mut items, &mut rng);
                tags.push("attributes");
            }
            let text = gtext::render_items(&items);
            // random layout so that positions are not trivial
            let text = match gtext::tokens_of(&text) {
                Some(t) if rng.chance(0.5) => {
                    let texts: Vec<String> = t.into_iter().map(|x| x.1).collect();
                    gtext::join_tokens(&texts, &mut rng, gtext::SEPARATORS).0
                }
                _ => text,
            };
            (format!("model+{}", tags.join("+")), text)
        }
        "C07" => {
            let which = match rng.below(10) {
                0..=3 => "C07-lex",
                4..=6 => "C07-parse",
                _ => "C07-validate",
            };
            if n < a + a * a + 600 {
                return input_for_unpadded("C07-lex", tier, seed, idx, sub);
            }
            if rng.below(25) == 0 {
                // accepted grammars under the hostile naming of C05 (helper names, numeric tails ...):
                // the last stage of generate must be total too
                if let Some(c) = super::compile::c05_case(seed ^ 0x77, 1_000_000 + n) {
                    return ("hostile-names-model".into(), c.1);
                }
            }
            let (c, t) = input_for(which, tier, seed, idx, sub);
            (c, t)
        }
        _ => ("?".into(), String::new()),
    }
}

fn lex_err_of(out: &GenOutcome) -> Option<(usize, Option<char>)> {
    match out {
        GenOutcome::Err(KikiErr::Lex(i, c)) => Some((i.0, *c)),
        _ => None,
    }
}

/// `kv streamprobe <inputs> <result>`: generate on every input, one result byte each, written to a FILE
/// (the standard streams of this process are unusable on purpose).
pub fn streamprobe_main(inputs: &str, result: &str) -> i32 {
    let bytes = std::fs::read(inputs).expect("read inputs");
    let mut out = vec![];
    let mut i = 0;
    while i + 4 <= bytes.len() {
        let n = u32::from_le_bytes(bytes[i..i + 4].try_into().unwrap()) as usize;
        i += 4;
        let s = String::from_utf8_lossy(&bytes[i..i + n]).to_string();
        i += n;
        // (the default panic hook stays installed: it writes to the broken stderr, as in a user's process)
        let r = std::panic::catch_unwind(|| kiki::generate(&s).is_ok());
        out.push(match r {
            Ok(true) => 0u8,
            Ok(false) => 1,
            Err(_) => 2,
        });
    }
    std::fs::write(result, out).expect("write result");
    0
}

impl Front {
    /// One case of the exhaustive code-point sweep: a lean comparison of the tapped tokenizer with the
    /// reference scanner; any disagreement is handed to the full monitor (which reports it).
    fn c08_sweep(&self, w: &mut Worker, k: u64) {
        let mut per_class: std::collections::BTreeMap<String, u64> = Default::default();
        let mut code_points = 0u64;
        for j in 0..SWEEP_SUBS_PER_CASE {
            let Some((class, text)) = sweep_text(k, j) else { continue };
            let reference = rlex::lex(&text);
            let tapped = crate::util::catch(|| kiki::verif_hooks::tokenize(&text));
            let agree = match (&reference, &tapped) {
                (Ok(rt), Ok(Ok(kt))) => {
                    kt.len() == rt.len()
                        && kt.iter().zip(rt.iter()).all(|(a, b)| {
                            let v = rlex::kiki_token_view(a);
                            v.0 == b.kind && v.1 == b.start && v.2 == text[b.start..b.end]
                        })
                }
                (Err(re), Ok(Err(KikiErr::Lex(i, c)))) => (i.0, *c) == (re.index, re.ch),
                _ => false,
            };
            // the public boundary, where a character could be stripped before tokenising
            let agree = agree
                && (j >= SWEEP_CPS_PER_CASE || {
                    let (out, _) = kside::generate(&text, 1_000_000);
                    match &reference {
                        Err(re) => lex_err_of(&out) == Some((re.index, re.ch)),
                        Ok(_) => lex_err_of(&out).is_none() && !matches!(out, GenOutcome::Panic(_)),
                    }
                });
            if agree {
                *per_class.entry(class).or_insert(0) += 1;
                code_points += if j < SWEEP_SINGLE.len() as u64 * SWEEP_CPS_PER_CASE { 1 } else { text.chars().count() as u64 / 8 };
            } else {
                w.sub(j);
                self.c08(w, &class, &text);
            }
        }
        let _ = code_points;
        for (c, n) in per_class {
            w.eval_n(n);
            w.count_n(&format!("class:{c}"), n);
        }
        w.count("code-point-sweep-cases");
    }

    fn c08(&self, w: &mut Worker, class: &str, text: &str) {
        let reference = rlex::lex(text);
        let tapped = crate::util::catch(|| kiki::verif_hooks::tokenize(text));
        let (out, _) = kside::generate(text, 50_000_000);
        let tapped = match tapped {
            Ok(t) => t,
            Err(_) => {
                w.count("masked_upstream:tokenizer-panic");
                return;
            }
        };
        if let GenOutcome::Panic(_) = out {
            w.count("masked_upstream:panic");
            return;
        }
        w.eval();
        w.count(&format!("class:{class}"));
        let witness = |extra: Value| json!({"text": text, "text_debug": format!("{text:?}"), "detail": extra});
        match (&reference, &tapped) {
            (Ok(rt), Ok(kt)) => {
                w.count("outcome:tokens");
                for t in rt {
                    w.count(&format!("token-kind:{}", t.kind.name()));
                }
                if rt.len() >= 2 {
                    w.nontrivial(rng::hash_str(text));
                }
                let views: Vec<(K, usize, String)> = kt.iter().map(rlex::kiki_token_view).collect();
                let exp: Vec<(K, usize, String)> = rt.iter().map(|t| (t.kind, t.start, text[t.start..t.end].to_string())).collect();
                if views != exp {
                    let first = views.iter().zip(exp.iter()).position(|(a, b)| a != b).unwrap_or(views.len().min(exp.len()));
                    let kind = exp.get(first).map(|e| e.0.name()).unwrap_or("extra-token");
                    w.violation(
                        &format!("tokens-differ:{kind}"),
                        "the token sequence differs from the documented lexical rules",
                        witness(json!({"first_difference_at_token": first, "reference": format!("{:?}", exp.get(first)), "kiki": format!("{:?}", views.get(first))})),
                    );
                } else if lex_err_of(&out).is_some() {
                    w.violation("generate-lex-error-on-lexically-valid-text", "generate returned a lexical error although tokenisation succeeds", witness(json!({"generate": out.render()})));
                }
                if text.bytes().any(|b| b >= 0x80) {
                    w.count("with-multibyte-characters");
                }
            }
            (Err(re), Err(KikiErr::Lex(i, c))) => {
                w.count(&format!("outcome:lex-error:{}", re.site));
                if re.index > 0 {
                    w.nontrivial(rng::hash_str(text));
                }
                if (i.0, *c) != (re.index, re.ch) {
                    w.violation(
                        &format!("lex-error-position-differs:{}", re.site),
                        &format!("lexical error should identify byte {} char {:?}; kiki reports byte {} char {:?}", re.index, re.ch, i.0, c),
                        witness(json!({"reference": format!("{re:?}")})),
                    );
                } else if lex_err_of(&out) != Some((re.index, re.ch)) {
                    w.violation("generate-disagrees-with-tokenizer", "generate does not return the tokenizer's lexical error", witness(json!({"generate": out.render()})));
                }
            }
            (Err(re), Ok(kt)) => {
                w.count(&format!("outcome:lex-error:{}", re.site));
                w.violation(
                    &format!("invalid-text-tokenised:{}", re.site),
                    &format!("text must be rejected with a lexical error at byte {} ({:?}) but was tokenised into {} tokens", re.index, re.ch, kt.len()),
                    witness(json!({"reference": format!("{re:?}"), "generate": out.render()})),
                );
            }
            (Ok(rt), Err(e)) => {
                w.violation(
                    "valid-text-rejected",
                    &format!("lexically valid text ({} tokens) was rejected: {e:?}", rt.len()),
                    witness(Value::Null),
                );
            }
            (Err(_), Err(e)) => {
                w.violation("tokenizer-returned-non-lexical-error", &format!("{e:?}"), witness(Value::Null));
            }
        }
        if w.wants_sample(class) && text.len() > 6 {
            w.sample(class, json!({"text": text, "reference": match &reference { Ok(t) => format!("{} tokens", t.len()), Err(e) => format!("lex error at {} {:?} ({})", e.index, e.ch, e.site) }}));
        }
    }

    /// One text of more than 2^32 bytes: a 4 GiB comment line, then a small file with a syntax error (or
    /// without one, ending early).  The reference runs on the small file; every position is that result
    /// plus the length of the comment line.
    fn c09_giant(&self, w: &mut Worker) {
        let pad = (1usize << 32) + 35 - 3;
        let tails: [&str; 3] = ["start Expr struct Expr { value:: $Num }\n", "start Expr struct Expr { value: $Num ", "start Expr enum Expr { A($Num) }\nterminal T { $Num: u8 }\n#[x]"];
        let tail = tails[(w.seed % 3) as usize];
        let mut text = String::with_capacity(pad + 128);
        text.push_str("//");
        let chunk = "x".repeat(1 << 22);
        while text.len() + chunk.len() <= pad {
            text.push_str(&chunk);
        }
        while text.len() < pad {
            text.push('y');
        }
        text.push('\n');
        let off = text.len();
        text.push_str(tail);
        // reference on the tail
        let Ok(rt) = rlex::lex(tail) else {
            w.inconclusive("giant C09 case: the tail does not lex");
            return;
        };
        let expected = match rkiki::parse_tokens(tail, &rt) {
            Ok(_) => None,
            Err(i) => Some(match i.and_then(|i| rt.get(i)) {
                Some(t) => (t.start + off, tail[t.start..t.end].to_string(), t.end + off),
                None => (tail.len() + off, String::new(), tail.len() + off),
            }),
        };
        let (out, _) = kside::generate(&text, 50_000_000);
        w.eval();
        w.count("class:text-larger-than-2^32-bytes");
        w.max("max-text-bytes", text.len() as u64);
        let got = match &out {
            GenOutcome::Err(KikiErr::Parse(s, c, e)) => Some((s.0, c.clone(), e.0)),
            _ => None,
        };
        let agrees = match (&expected, &out) {
            (None, GenOutcome::Err(KikiErr::Parse(..))) | (None, GenOutcome::Err(KikiErr::Lex(..))) | (None, GenOutcome::Panic(_)) => false,
            (None, _) => true,
            (Some(_), _) => got == expected,
        };
        if !agrees {
            w.violation(
                "parse-error-span-differs:text-larger-than-2^32-bytes",
                &format!("expected {expected:?}, generate returned {}", out.render()),
                json!({"text": format!("`//` + {} filler bytes + newline + {tail:?}", pad - 2), "expected": format!("{expected:?}"), "kiki": out.render()}),
            );
        }
    }

    fn c09(&self, w: &mut Worker, class: &str, text: &str) {
        let Ok(rt) = rlex::lex(text) else {
            w.count("not-applicable:lexically-invalid");
            return;
        };
        // blame assignment: only texts that kiki tokenises as the reference does
        let tapped = crate::util::catch(|| kiki::verif_hooks::tokenize(text));
        let same_tokens = match &tapped {
            Ok(Ok(kt)) => {
                let views: Vec<(K, usize, String)> = kt.iter().map(rlex::kiki_token_view).collect();
                let exp: Vec<(K, usize, String)> = rt.iter().map(|t| (t.kind, t.start, text[t.start..t.end].to_string())).collect();
                views == exp
            }
            _ => false,
        };
        if !same_tokens {
            w.count("masked_upstream:tokens-differ");
            return;
        }
        let kinds: Vec<K> = rt.iter().map(|t| t.kind).collect();
        let mut cells = vec![];
        let v_lr = with_kiki_reference(|g, r| rkiki::lr_verdict(g, r, &kinds, Some(&mut cells)));
        let v_rd = match rkiki::parse_tokens(text, &rt) {
            Ok(_) => Verdict::Accept,
            Err(i) => Verdict::Reject(i),
        };
        if v_lr != v_rd {
            w.inconclusive(&format!("oracle disagreement on {text:?}: LR(1) {v_lr:?} vs recursive descent {v_rd:?}"));
            return;
        }
        let (out, _) = kside::generate(text, 50_000_000);
        if let GenOutcome::Panic(_) = out {
            w.count("masked_upstream:panic");
            return;
        }
        w.eval();
        w.count(&format!("class:{class}"));
        for c in &cells {
            w.set_insert("reference-cells", format!("{}:{}", c.0, c.1));
        }
        let witness = |extra: Value| json!({"text": text, "token_kinds": kinds.iter().map(|k| k.name()).collect::<Vec<_>>(), "reference": format!("{v_lr:?}"), "kiki": out.render(), "detail": extra});
        match &v_lr {
            Verdict::Accept => {
                w.count("reference:accept");
                if kinds.len() >= 10 {
                    w.nontrivial(rng::hash_bytes(&kinds.iter().map(|k| k.index() as u8).collect::<Vec<u8>>()));
                }
                if matches!(out, GenOutcome::Err(KikiErr::Parse(..)) | GenOutcome::Err(KikiErr::Lex(..))) {
                    w.violation("valid-file-rejected-by-front-end", "the token sequence is a sentence of the Kiki grammar but generate returned a parse/lex error", witness(Value::Null));
                }
            }
            Verdict::Reject(at) => {
                let (es, et, ee) = match at {
                    Some(k) => (rt[*k].start, text[rt[*k].start..rt[*k].end].to_string(), rt[*k].end),
                    None => (text.len(), String::new(), text.len()),
                };
                w.count(if at.is_some() { "reference:reject-at-token" } else { "reference:reject-at-end" });
                if let Some(k) = at {
                    w.count(&format!("offending-kind:{}", kinds[*k].name()));
                    if *k >= 1 {
                        w.nontrivial(rng::hash_bytes(&kinds.iter().map(|k| k.index() as u8).collect::<Vec<u8>>()));
                    }
                }
                match &out {
                    GenOutcome::Err(KikiErr::Parse(s, t, e)) => {
                        if (s.0, t.as_str(), e.0) != (es, et.as_str(), ee) {
                            w.violation(
                                &format!("parse-error-span-differs:{}", at.map(|k| kinds[k].name()).unwrap_or("end-of-input")),
                                &format!("expected Parse({es}, {et:?}, {ee}), generate returned Parse({}, {:?}, {})", s.0, t, e.0),
                                witness(Value::Null),
                            );
                        }
                    }
                    _ => w.violation("invalid-file-passed-front-end", &format!("the file must be rejected with Parse({es}, {et:?}, {ee})"), witness(Value::Null)),
                }
            }
        }
        if w.wants_sample(class) && kinds.len() >= 4 {
            w.sample(class, json!({"text": text, "reference": format!("{v_lr:?}"), "kiki": out.class()}));
        }
    }

    fn c10(&self, w: &mut Worker, class: &str, text: &str) {
        let Ok(items) = rkiki::reference_ast(text) else {
            w.count("not-applicable:not-syntactically-valid");
            return;
        };
        let present = rvalidate::violations(&items);
        if present.contains(&rvalidate::Violation::TooMany) {
            // the reference list is incomplete: nothing can be decided on it
            w.count("skipped:reference-enumeration-cut-off");
            return;
        }
        let (out, _) = kside::generate(text, 50_000_000);
        // blame assignment: the front end must have agreed that the file is syntactically valid
        match &out {
            GenOutcome::Panic(_) => {
                w.count("masked_upstream:panic");
                return;
            }
            GenOutcome::Err(KikiErr::Lex(..)) | GenOutcome::Err(KikiErr::Parse(..)) => {
                w.count("masked_upstream:front-end-rejected");
                return;
            }
            _ => {}
        }
        w.eval();
        let class_short = class.split('+').next().unwrap_or(class);
        w.count(&format!("class:{class_short}"));
        let mut kinds: BTreeSet<&'static str> = BTreeSet::new();
        for v in &present {
            kinds.insert(v.kind());
        }
        let present_desc = if kinds.is_empty() { "none".to_string() } else { kinds.iter().copied().collect::<Vec<_>>().join("+") };
        let reported = out.class();
        w.set_insert("present-vs-reported", format!("{present_desc} -> {reported}"));
        w.count(&format!("reported:{reported}"));
        w.count(&format!("violations-present:{}", present.len().min(4)));
        if !present.is_empty() {
            // structure hash: names and declaration structure, not layout
            w.nontrivial(rng::hash_str(&gtext::render_items(&items)));
        }
        let witness = || json!({"text": text, "violations_present": present.iter().map(|v| format!("{v:?}")).collect::<Vec<_>>(), "kiki": out.render()});
        match &out {
            GenOutcome::Ok(_) | GenOutcome::Err(KikiErr::TableConflict(_)) => {
                if !present.is_empty() {
                    let k = present[0].kind();
                    w.violation(&format!("ill-formed-file-passed-validation:{k}"), "generate passed validation although the file violates a static rule", witness());
                }
            }
            GenOutcome::Err(e) => {
                if !rvalidate::truthful(e, &present) {
                    w.violation(
                        &format!("untruthful-validation-error:{}", kside::err_kind(e)),
                        "the validation error does not describe a violation really present at the reported positions",
                        witness(),
                    );
                }
            }
            GenOutcome::Panic(_) => {}
        }
        if w.wants_sample(&reported) {
            w.sample(&reported, json!({"text": text, "violations_present": present.iter().map(|v| format!("{v:?}")).collect::<Vec<_>>(), "kiki": out.render()}));
        }
    }

    /// The batch once more in a child process whose standard streams cannot be written (stdout and
    /// stderr on /dev/full, or closed): a library call must not depend on them.  The child reports through
    /// a file: one byte per input (0 Ok, 1 Err, 2 panic).
    fn c07_streams(&self, w: &mut Worker, texts: &[String], closed: bool) {
        let inputs = w.scratch.join(format!("c07-streams-{}.bin", w.shard));
        let result = w.scratch.join(format!("c07-streams-{}.out", w.shard));
        let _ = std::fs::remove_file(&result);
        let mut buf = vec![];
        for s in texts {
            buf.extend_from_slice(&(s.len() as u32).to_le_bytes());
            buf.extend_from_slice(s.as_bytes());
        }
        if std::fs::write(&inputs, buf).is_err() {
            w.inconclusive("cannot write the stream probe");
            return;
        }
        let exe = std::env::current_exe().expect("current_exe");
        let mut cmd = std::process::Command::new(exe);
        cmd.arg("streamprobe").arg(&inputs).arg(&result).stdin(std::process::Stdio::null());
        if closed {
            use std::os::unix::process::CommandExt;
            cmd.stdout(std::process::Stdio::null()).stderr(std::process::Stdio::null());
            unsafe {
                cmd.pre_exec(|| {
                    libc::close(1);
                    libc::close(2);
                    Ok(())
                });
            }
        } else {
            let full = || std::fs::OpenOptions::new().write(true).open("/dev/full").map(std::process::Stdio::from).unwrap_or_else(|_| std::process::Stdio::null());
            cmd.stdout(full()).stderr(full());
        }
        crate::util::limit_cpu_and_memory(&mut cmd, 300, 8 << 30);
        let status = cmd.status();
        let got = std::fs::read(&result).unwrap_or_default();
        if got.len() != texts.len() {
            w.inconclusive(&format!("stream probe ended early: {status:?}, {} of {} answers", got.len(), texts.len()));
            return;
        }
        w.count(if closed { "stream-probes:stdout-and-stderr-closed" } else { "stream-probes:stdout-and-stderr-on-/dev/full" });
        for (t, g) in texts.iter().zip(got.iter()) {
            w.eval();
            if *g == 2 {
                // (a panic that also happens with ordinary streams is reported by the ordinary run)
                if !matches!(kside::generate(t, 50_000_000).0, GenOutcome::Panic(_)) {
                    w.violation(
                        "panic-with-unwritable-standard-streams",
                        "generate panics when the standard output / error streams of the process cannot be written, and not otherwise",
                        json!({"text": t, "text_debug": format!("{t:?}"), "streams": if closed { "closed" } else { "/dev/full" }}),
                    );
                    return;
                }
            }
        }
    }

    fn c07(&self, w: &mut Worker, class: &str, text: &str) {
        if text.len() > super::stress::MAX_BYTES {
            // outside the bounds the property is stated for
            w.count("not-applicable:source-larger-than-64KiB");
            return;
        }
        // step limit from the reference model when the text is a well-formed grammar
        let mut limit: u64 = 50_000_000;
        let mut well_formed = false;
        if let Ok(items) = rkiki::reference_ast(text) {
            if rvalidate::violations(&items).is_empty() {
                if let Ok(m) = rkiki::to_model(&items) {
                    well_formed = true;
                    let cfg = m.cfg();
                    if let Some(r) = lr::build_reference(&cfg, 3000) {
                        limit = super::lalr_diff::step_limit(&r);
                    } else {
                        limit = 2_000_000_000;
                    }
                }
            }
        }
        let (out, hc) = kside::generate(text, limit);
        w.eval();
        w.count(&format!("class:{class}"));
        let stage = out.class();
        w.count(&format!("outcome:{stage}"));
        if well_formed {
            w.count("well-formed-grammars");
        }
        for (i, t) in hc.ticks.iter().enumerate() {
            w.max(&format!("max-steps-site-{i}"), *t);
        }
        if !matches!(out, GenOutcome::Err(KikiErr::Lex(..))) {
            w.nontrivial(rng::hash_str(text));
        }
        if let GenOutcome::Panic(p) = &out {
            let sig = if p.message.starts_with("KIKI_VERIF_STEP_LIMIT") {
                format!("step-limit:{}", p.message.split_whitespace().nth(1).unwrap_or("?"))
            } else if p.message.starts_with("KIKI_VERIF_OSET") {
                "oset-invariant".to_string()
            } else {
                let file = p.site();
                let file = file.rsplit_once(':').map(|x| x.0.to_string()).unwrap_or(file);
                let msg: String = p.message.chars().filter(|c| !c.is_ascii_digit()).take(60).collect();
                format!("panic:{}:{}", file, msg.split_whitespace().take(6).collect::<Vec<_>>().join("-"))
            };
            w.violation(&sig, &format!("generate panicked: {} @ {}", p.message, p.location), json!({"text": text, "text_debug": format!("{text:?}"), "class": class}));
        }
        if w.wants_sample(&stage) && text.len() > 8 {
            w.sample(&stage, json!({"text": crate::util::truncate(text, 400), "outcome": out.render(), "steps": hc.ticks}));
        }
    }
}

impl Engine for Front {
    fn name(&self) -> &'static str {
        "front"
    }
    fn total_cases(&self, prop: &str, tier: Tier) -> u64 {
        n_batches(prop, tier)
            + match prop {
                "C07" => super::stress::n_stress(tier),
                "C08" => SWEEP_CASES,
                "C09" => 1,
                _ => 0,
            }
    }
    fn run_case(&self, w: &mut Worker, idx: u64) {
        let prop = w.prop.clone();
        if prop == "C07" && idx >= n_batches("C07", w.tier) {
            super::stress::run_stress_case(w, idx - n_batches("C07", w.tier));
            return;
        }
        if prop == "C08" && idx >= n_batches("C08", w.tier) {
            self.c08_sweep(w, idx - n_batches("C08", w.tier));
            return;
        }
        if prop == "C09" && idx >= n_batches("C09", w.tier) {
            self.c09_giant(w);
            return;
        }
        if prop == "C07" && idx % w.tier.pick(40, 600) == 7 {
            let texts: Vec<String> = (0..BATCH).map(|sub| input_for(&prop, w.tier, w.seed, idx, sub).1).filter(|t| t.len() <= super::stress::MAX_BYTES).collect();
            self.c07_streams(w, &texts, idx % 80 == 47);
        }
        for sub in 0..BATCH {
            w.sub(sub);
            let (class, text) = input_for(&prop, w.tier, w.seed, idx, sub);
            match prop.as_str() {
                "C08" => self.c08(w, &class, &text),
                "C09" => self.c09(w, &class, &text),
                "C10" => self.c10(w, &class, &text),
                "C07" => self.c07(w, &class, &text),
                _ => {}
            }
        }
    }
    fn describe_case(&self, prop: &str, tier: Tier, seed: u64, idx: u64, sub: u64) -> Value {
        if prop == "C07" && idx >= n_batches("C07", tier) {
            return super::stress::describe(tier, seed, idx - n_batches("C07", tier));
        }
        if prop == "C09" && idx >= n_batches("C09", tier) {
            return json!({"class": "text-larger-than-2^32-bytes", "text": "a `//` comment line of 2^32 + 32 bytes followed by a small file (see the violation's witness)"});
        }
        if prop == "C08" && idx >= n_batches("C08", tier) {
            return match sweep_text(idx - n_batches("C08", tier), sub) {
                Some((class, text)) => json!({"class": class, "text": text, "text_debug": format!("{text:?}")}),
                None => Value::Null,
            };
        }
        let (class, text) = input_for(prop, tier, seed, idx, sub);
        json!({"class": class, "text": text, "text_debug": format!("{text:?}")})
    }
    fn abort_is_violation(&self, prop: &str) -> bool {
        prop == "C07"
    }
    fn rule(&self, prop: &str) -> String {
        match prop {
            "C08" => format!("inputs: every string of 1 and 2 atoms (3 in the thorough tier) over a {}-atom alphabet built to hit every lexer transition (identifier characters, digits, all punctuation and brackets, $ # / :, LF CR CRLF TAB VT FF, every kind of Unicode White_Space (U+0085 U+00A0 U+1680 U+2000..U+200A U+2028 U+2029 U+202F U+205F U+3000), look-alikes that are not whitespace (U+200B U+180E U+FEFF U+001C), 2/3/4-byte letters, non-ASCII digits / numerics / letters / combining marks (² ½ ٣ １ Ⅷ ß Ω ａ İ U+0301 U+200D), reserved words, //, #[, ::, $x, $start ...), random soups of up to 64 atoms, valid files with 1-3 character edits, prefixes of valid files cut at every kind of boundary, attribute-centred bracket soups, token soups with and without separators; plus an EXHAUSTIVE code-point sweep: every one of the 1 112 064 Unicode scalar values in each of 7 single-character contexts (start of text, inside an identifier, after $, after /, after #, after :, after a terminal identifier) and in 4 contexts inside comments and attributes (plain, in a string, in nested brackets; 256 code points per text). One evaluation = one string tokenised by kiki (tap on the tokenizer + generate at the public boundary) compared token by token (kind, start, text) or error by error (byte index, character) with the reference scanner R-lex. Distinct non-trivial = distinct strings with >=2 tokens or a lexical error at index > 0.", gtext::ATOMS.len()),
            "C09" => "inputs: ONE text of 2^32 + 70 bytes (a 4 GiB comment line, then a small file with a syntax error: every reported position lies beyond 2^32) and lexically valid texts built from token sequences: prefix p of a valid file (repository examples, rendered grammar models, random sentences of the Kiki grammar itself) extended by each of the 17 token kinds (prefix-extension sweep), valid files with 0-3 token edits, token soups; joined with random whitespace/comments so spans are non-trivial. One evaluation = generate(text) compared with the verdict of the Kiki grammar as data under the reference canonical LR(1) recogniser (cross-checked by a hand-written predictive recogniser): accept, or Parse(start,text,end) of the first token that cannot continue any valid file, or the empty span at the end. Distinct non-trivial = distinct token-kind sequences rejected at index >=1 or accepted with >=10 tokens.".into(),
            "C10" => "inputs: syntactically valid files: (a) rendered grammar models with 0-3 injected edits (rename to an existing / hostile name, flip a reference between $terminal and nonterminal namespace, drop/duplicate start, drop/duplicate terminal enum, duplicate variant / nonterminal / terminal variant, start naming a terminal, capitalisation flips), re-laid-out at random; (b) random declarations over a 14-name pool so that every kind and combination of violation occurs. One evaluation = generate(text) compared with the set of all violations computed by R-validate from the reference AST: Ok/TableConflict only if the set is empty, otherwise the reported error (variant, name / symbol sequence, every byte position) must be an element of the set. Distinct non-trivial = distinct files (hash of the declaration structure) with >=1 violation present.".into(),
            _ => "inputs: the union of the C08, C09 and C10 workloads (character soups incl. every 1- and 2-atom string, token-level and character-level edits of valid files, prefixes, files with injected static violations, well-formed but unusual grammars) plus size/depth stress files inside the property's bounds run in separate child processes in both the optimised and the unoptimised (dev-profile) build. One evaluation = one call of generate under catch_unwind with the H2 step limit armed (limit derived from the reference automaton when the text is a well-formed grammar); panics, step-limit trips, deaths by signal and exhausted CPU budgets are the refuting events. Every 40th batch runs once more in a child process whose stdout and stderr cannot be written (/dev/full, or closed). Distinct non-trivial = distinct inputs that got past the tokenizer.".into(),
        }
    }
    fn floors(&self, prop: &str, tier: Tier, agg: &Agg) -> Vec<String> {
        let mut out = vec![];
        let masked = agg.counters_with_prefix("masked_upstream:");
        if masked * 5 > agg.evaluations + masked {
            out.push(format!("{masked} inputs masked upstream (> 20%)"));
        }
        match prop {
            "C08" => {
                for k in rlex::ALL_KINDS {
                    if agg.counter(&format!("token-kind:{}", k.name())) < 100 {
                        out.push(format!("token kind {} observed fewer than 100 times", k.name()));
                    }
                }
                for site in ["lone-slash", "lone-dollar", "lone-pound", "reserved-word-after-dollar", "newline-in-attribute", "mismatched-closer-in-attribute", "attribute-unterminated-at-eof", "stray-character"] {
                    if agg.counter(&format!("outcome:lex-error:{site}")) < 50 {
                        out.push(format!("lexical error site {site} observed fewer than 50 times"));
                    }
                }
            }
            "C09" => {
                let cells = agg.set_len("reference-cells");
                if cells < tier.pick(500, 650) {
                    out.push(format!("only {cells} reference (state, token) cells exercised"));
                }
                if agg.counter("reference:accept") < 500 || agg.counter("reference:reject-at-end") < 200 {
                    out.push("too few accepted files / end-of-input rejections".into());
                }
            }
            "C10" => {
                for k in [
                    "NoStartSymbol", "MultipleStartSymbols", "NoTerminalEnum", "MultipleTerminalEnums", "SymbolOrTerminalEnumNameFirstLetterNotUppercase",
                    "FieldFirstLetterNotLowercase", "NameClash", "NonterminalEnumVariantNameClash", "NonterminalEnumVariantSymbolSequenceClash",
                    "UndefinedNonterminal", "UndefinedTerminal",
                ] {
                    if agg.counter(&format!("reported:{k}")) < 100 {
                        out.push(format!("validation error {k} observed fewer than 100 times"));
                    }
                }
                if agg.counter("reported:Ok") + agg.counter("reported:TableConflict") < 500 {
                    out.push("too few files passed validation".into());
                }
            }
            "C07" => {
                if agg.counter("well-formed-grammars") < 1000 {
                    out.push("fewer than 1000 well-formed grammars".into());
                }
            }
            _ => {}
        }
        out
    }
    fn assumptions(&self, prop: &str) -> Vec<String> {
        let mut v = vec!["the reference scanner / grammar / validator in harness/src/{rlex,rkiki,rvalidate}.rs encode the documented rules (USER_GUIDE.md, parser.kiki, the property statements)".to_string()];
        if prop == "C07" {
            v.push("non-termination is judged in logical units: H2 step counters inside the fix-point loops and the CPU time of the single-threaded worker (120 s per batch of 64 small inputs; stress files get their own budget); a wall-clock watchdog firing is inconclusive".into());
            v.push("sizes are bounded as the property states: <= 64 KiB, <= 2000 declarations, type nesting <= 256".into());
        }
        v
    }
    fn extra_coverage(&self, prop: &str, _tier: Tier, agg: &Agg) -> Map<String, Value> {
        let mut m = Map::new();
        if prop == "C09" {
            m.insert("reference_cells_exercised".into(), json!(agg.set_len("reference-cells")));
            m.insert("reference_cells_total".into(), json!(with_kiki_reference(|g, r| r.lr1.states.len() * (g.cfg.nt + 1))));
        }
        m
    }
    fn cpu_budget_s(&self, _prop: &str, _tier: Tier) -> u64 {
        120
    }
}
