//! Engines `compile` (C05) and `shape` (C06): the emitted module under rustc.
//! C05: adversarial user naming, payload types without any trait.
//! C06: emitted item shapes (text level) and a generated client that must type-check.

use crate::coord::{Agg, Engine, Tier, Worker};
use crate::kside::{self, GenOutcome};
use crate::lr;
use crate::model::*;
use crate::rng::{self, Rng};
use crate::runner::{self, CompileResult};
use crate::shape;
use crate::skim;
use serde_json::{json, Map, Value};

pub struct Compile;

/// Names the emitter uses or might use for its own helper items, their uniquified forms,
/// letter-less names and a long name.
pub const TYPE_NAME_POOL: &[&str] = &[
    "State", "Node", "Action", "RuleKind", "Eof", "Quasiterminal", "QuasiterminalKind", "NonterminalKind", "ACTION_TABLE", "GOTO_TABLE", "S", "Terminal",
    "Shift", "Reduce", "Accept", "R0", "S0", "R1", "S1", "Error", "Item", "Output", "State2", "Eof2", "Node2", "Action2", "RuleKind2", "Quasiterminal2",
    "QuasiterminalKind2", "NonterminalKind2", "ACTION_TABLE2", "GOTO_TABLE2", "S2", "Eof3", "State3", "__", "_0", "___0", "_1", "__0", "_0_0", "___1", "T", "N", "I",
    "Reduce2", "Kind", "Token", "Tok", "Self_", "Parse", "Src", "Target", "Iter", "IntoIter", "Rule", "Goto", "Table",
    "AVeryLongNameAVeryLongNameAVeryLongNameAVeryLongNameAVeryLongNameAVeryLongNameAVeryLongNameAVeryLongName",
];

/// The emitter's own locals, parameters and function names, and letter-less names.
pub const FIELD_NAME_POOL: &[&str] = &[
    "states", "nodes", "node", "t0", "t1", "t", "n", "src", "top_state", "new_state", "rule_kind", "states_0", "nodes_1", "__", "_0", "error", "ok",
    "quasiterminals", "next_quasiterminal_kind", "temp_top_state", "new_node", "new_node_kind", "terminal", "quasiterminal", "parse", "get_action", "get_goto",
    "pop_and_reduce", "reduce", "reduce_r0", "from_terminal", "try_into_terminal", "std", "vec", "iter", "a", "b", "x1", "___0", "_1", "__0", "value", "kind", "next",
    "peek", "len", "last", "unwrap", "pop", "push", "truncate", "f0", "f1", "field", "t2", "n0", "none", "some", "err", "result", "option", "boxed", "into_iter",
];

/// Rust keywords (strict, reserved, weak-in-type-position), Kiki's reserved words, and the items of
/// the 2021 std prelude: excluded by the property's precondition.
const EXCLUDED: &[&str] = &[
    "as", "break", "const", "continue", "crate", "else", "enum", "extern", "false", "fn", "for", "if", "impl", "in", "let", "loop", "match", "mod", "move", "mut",
    "pub", "ref", "return", "self", "Self", "static", "struct", "super", "trait", "true", "type", "unsafe", "use", "where", "while", "async", "await", "dyn",
    "abstract", "become", "box", "do", "final", "macro", "override", "priv", "typeof", "unsized", "virtual", "yield", "try", "gen", "union", "macro_rules", "start",
    "terminal", "_", "Option", "Some", "None", "Result", "Ok", "Err", "Vec", "String", "Box", "ToString", "ToOwned", "Clone", "Copy", "Send", "Sync", "Sized",
    "Drop", "Fn", "FnMut", "FnOnce", "Iterator", "IntoIterator", "Extend", "Default", "PartialEq", "Eq", "PartialOrd", "Ord", "AsRef", "AsMut", "Into", "From",
    "TryFrom", "TryInto", "FromIterator", "DoubleEndedIterator", "ExactSizeIterator", "Unpin", "Debug", "Hash",
];

fn legal_upper(n: &str) -> bool {
    !EXCLUDED.contains(&n) && n.chars().find(|c| c.is_ascii_alphabetic()).map(|c| c.is_ascii_uppercase()).unwrap_or(true)
}
fn legal_lower(n: &str) -> bool {
    !EXCLUDED.contains(&n) && n.chars().find(|c| c.is_ascii_alphabetic()).map(|c| c.is_ascii_lowercase()).unwrap_or(true)
}

/// A small accepted grammar exercising every fieldset shape.
fn accepted_model(rng: &mut Rng) -> Option<Model> {
    for _ in 0..12 {
        let (cfg, force) = if rng.chance(0.6) { crate::gen::structured_cfg(rng) } else { let (_, c, f) = crate::gen::small_grammar(rng); (c, f) };
        if cfg.nn > 6 || cfg.rules.len() > 14 {
            continue;
        }
        let Some(r) = lr::build_reference(&cfg, 1500) else { continue };
        if r.lalr_conflict {
            continue;
        }
        let mut m = model_from_cfg(&cfg, &force);
        assign_random_shapes(&mut m, rng, 0.7);
        m.start_pos = rng.below(m.nts.len() + 1);
        m.term_pos = rng.below(m.nts.len() + 1);
        return Some(m);
    }
    None
}

/// Roles a name can play.
#[derive(Clone, Copy, Debug, PartialEq, Eq)]
pub enum Role {
    Nonterminal,
    Variant,
    Terminal,
    TerminalEnum,
    Field,
}

impl Role {
    fn name(&self) -> &'static str {
        match self {
            Role::Nonterminal => "nonterminal",
            Role::Variant => "variant",
            Role::Terminal => "terminal",
            Role::TerminalEnum => "terminal-enum",
            Role::Field => "field",
        }
    }
}

/// The emitter's vocabulary harvested at run time from what it emits *now* (identifiers of the emitted
/// modules for three sample grammars), split into names usable for types/variants and for fields.
/// The hand-written pools above were read off the pinned emitter; a helper introduced later
/// (`DEFAULT_REDUCTIONS`, a new local ...) only shows up here.
pub fn emitted_vocabulary() -> &'static (Vec<String>, Vec<String>) {
    static V: std::sync::OnceLock<(Vec<String>, Vec<String>)> = std::sync::OnceLock::new();
    V.get_or_init(|| {
        const SAMPLES: &[&str] = &[
            "start E\nenum E { Add { lhs: E _: $Plus rhs: T } One(T) Nil }\nstruct T { _: $L e: E _: $R n: $Num }\nterminal Tok { $Plus: () $L: () $R: () $Num: u8 }\n",
            "start S\nstruct S(A A $X _: $Y)\nenum A { P($X) Q }\nterminal K { $X: Vec<u8> $Y: () }\n",
            "start S\nstruct S\nterminal K {}\n",
        ];
        let mut upper = std::collections::BTreeSet::new();
        let mut lower = std::collections::BTreeSet::new();
        for src in SAMPLES {
            if let (GenOutcome::Ok(text), _) = kside::generate(src, 50_000_000) {
                if let Ok(toks) = skim::lex(&text) {
                    for (t, _) in toks {
                        if let skim::Tok::Ident(id) = t {
                            if id.len() > 40 {
                                continue;
                            }
                            if legal_upper(&id) && id.starts_with(|c: char| c.is_ascii_uppercase() || c == '_') {
                                upper.insert(id.clone());
                            }
                            if legal_lower(&id) && id.starts_with(|c: char| c.is_ascii_lowercase() || c == '_') {
                                lower.insert(id);
                            }
                        }
                    }
                }
            }
        }
        // second- and third-order vocabulary: what the emitter calls its helpers once the USER already owns
        // the first-choice names (`Node2`, `State2`, a companion derived from a second choice ...)
        for _round in 0..2 {
            let names: Vec<String> = upper.iter().filter(|n| !n.starts_with('_')).cloned().collect();
            for chunk in names.chunks(10) {
                if chunk.len() < 2 {
                    continue;
                }
                let mut src = format!("start {}\n", chunk[0]);
                src.push_str(&format!("struct {}({})\n", chunk[0], chunk[2..].iter().map(|n| format!("{n} ")).collect::<String>()));
                for n in &chunk[2..] {
                    src.push_str(&format!("struct {n}\n"));
                }
                src.push_str(&format!("terminal {} {{}}\n", chunk[1]));
                if let (GenOutcome::Ok(text), _) = kside::generate(&src, 50_000_000) {
                    if let Ok(toks) = skim::lex(&text) {
                        for (t, _) in toks {
                            if let skim::Tok::Ident(id) = t {
                                if id.len() <= 40 && legal_upper(&id) && id.starts_with(|c: char| c.is_ascii_uppercase()) {
                                    upper.insert(id);
                                }
                            }
                        }
                    }
                }
            }
        }
        (upper.into_iter().collect(), lower.into_iter().collect())
    })
}

/// Systematic pairs: a harvested name that carries a digit (a second choice of the emitter) together with
/// the same name without its digits, and with every other harvested name that shares its stem.
fn vocabulary_family_case(k: usize) -> Option<(Model, Vec<(Role, String)>)> {
    let v = emitted_vocabulary();
    let derived: Vec<&String> = v.0.iter().filter(|n| n.chars().any(|c| c.is_ascii_digit())).collect();
    if derived.is_empty() {
        return None;
    }
    let d = derived[k % derived.len()];
    let stem: String = d.chars().take_while(|c| !c.is_ascii_digit()).collect();
    let mut family: Vec<String> = v.0.iter().filter(|n| n.starts_with(&stem) && n.len() <= stem.len() + 12).cloned().collect();
    let base: String = d.chars().filter(|c| !c.is_ascii_digit()).collect();
    if legal_upper(&base) && !family.contains(&base) {
        family.push(base);
    }
    family.sort();
    family.dedup();
    if family.len() < 2 {
        return None;
    }
    // a random subset (which members are present decides which second choices the emitter makes), in a
    // random order (the first one names the terminal enum)
    let mut srng = Rng::for_case(0x5eed, "vocabulary-family", k as u64);
    srng.shuffle(&mut family);
    let keep = srng.range(2, family.len().min(5));
    family.truncate(keep);
    let t = |used: bool| Field { sym: Sym::T(0), used, name: "x".into() };
    let mut nts: Vec<Nt> = vec![];
    for (i, n) in family.iter().enumerate().skip(1) {
        nts.push(Nt {
            name: n.clone(),
            is_enum: i % 3 == 0,
            prods: vec![Prod { name: "V".into(), style: if i % 2 == 0 { Style::Tuple } else { Style::Named }, fields: vec![t(i % 2 == 0)] }],
            attrs: vec![],
        });
    }
    // the start symbol uses all others
    let fields: Vec<Field> = (1..nts.len() + 1).map(|i| Field { sym: Sym::N(i), used: true, name: format!("f{i}") }).collect();
    nts.insert(0, Nt { name: "Start0".into(), is_enum: false, prods: vec![Prod { name: String::new(), style: Style::Named, fields }], attrs: vec![] });
    let m = Model { nts, terms: vec![Term { name: "T".into(), ty: TypeExpr::Unit }], term_enum: family[0].clone(), term_attrs: vec![], start: 0, start_pos: 0, term_pos: 1 };
    let placed = family.iter().map(|n| (Role::Nonterminal, n.clone())).collect();
    Some((m, placed))
}

const N_VOCABULARY_FAMILIES: usize = 500;

/// Numeric tails: what a "find the first free suffix" loop may meet (small, zero-padded, beyond u32 /
/// u64 / u128, underscore-separated).
const NUMERIC_TAILS: &[&str] = &[
    "2", "3", "02", "_2", "0", "1", "10", "4294967295", "4294967296", "18446744073709551615", "18446744073709551616", "99999999999999999999999999",
    "340282366920938463463374607431768211456", "2_", "22",
];

fn pick_type_name(rng: &mut Rng) -> String {
    let v = emitted_vocabulary();
    let base = if !v.0.is_empty() && rng.chance(0.3) { rng.pick(&v.0).clone() } else { rng.pick_str(TYPE_NAME_POOL).to_string() };
    if rng.chance(0.12) {
        format!("{base}{}", rng.pick_str(NUMERIC_TAILS))
    } else {
        base
    }
}

fn pick_field_name(rng: &mut Rng) -> String {
    let v = emitted_vocabulary();
    let base = if !v.1.is_empty() && rng.chance(0.3) { rng.pick(&v.1).clone() } else { rng.pick_str(FIELD_NAME_POOL).to_string() };
    if rng.chance(0.12) {
        format!("{base}{}", rng.pick_str(NUMERIC_TAILS))
    } else {
        base
    }
}

/// Assign adversarial names.  `single`: put exactly this one pool name at this one role.
pub fn adversarial_names(m: &mut Model, rng: &mut Rng, density: f64, single: Option<(Role, &str)>) -> Vec<(Role, String)> {
    let mut used_top: Vec<String> = vec![];
    let mut placed: Vec<(Role, String)> = vec![];
    let fresh_top = |rng: &mut Rng, used: &Vec<String>, default: String, role: Role, placed: &mut Vec<(Role, String)>, single: Option<(Role, &str)>, first_slot: bool| -> String {
        if let Some((r, n)) = single {
            if r == role && first_slot && legal_upper(n) && !used.iter().any(|u| u == n) {
                placed.push((role, n.to_string()));
                return n.to_string();
            }
            return default;
        }
        if rng.chance(density) {
            for _ in 0..6 {
                let n = pick_type_name(rng);
                if legal_upper(&n) && !used.iter().any(|u| *u == n) {
                    placed.push((role, n.clone()));
                    return n;
                }
            }
        }
        default
    };
    // top-level namespace: nonterminals, terminals, terminal enum
    let mut first = true;
    for i in 0..m.nts.len() {
        let d = format!("Nt{i}");
        let n = fresh_top(rng, &used_top, d, Role::Nonterminal, &mut placed, single, first);
        first = false;
        used_top.push(n.clone());
        m.nts[i].name = n;
    }
    first = true;
    for i in 0..m.terms.len() {
        let d = format!("Tm{i}");
        let n = fresh_top(rng, &used_top, d, Role::Terminal, &mut placed, single, first);
        first = false;
        used_top.push(n.clone());
        m.terms[i].name = n;
    }
    let n = fresh_top(rng, &used_top, "Tokn".to_string(), Role::TerminalEnum, &mut placed, single, true);
    used_top.push(n.clone());
    m.term_enum = n;
    // variants: distinct within one enum (may equal top-level names)
    let mut first_variant = true;
    let mut first_field = true;
    for nt in &mut m.nts {
        let mut used: Vec<String> = vec![];
        for (j, p) in nt.prods.iter_mut().enumerate() {
            if nt.is_enum {
                let mut name = format!("Vr{j}");
                if let Some((Role::Variant, n)) = single {
                    if first_variant && legal_upper(n) {
                        name = n.to_string();
                        placed.push((Role::Variant, name.clone()));
                    }
                    first_variant = false;
                } else if single.is_none() && rng.chance(density) {
                    for _ in 0..6 {
                        let n = pick_type_name(rng);
                        if legal_upper(&n) && !used.iter().any(|u| *u == n) {
                            name = n;
                            placed.push((Role::Variant, name.clone()));
                            break;
                        }
                    }
                }
                used.push(name.clone());
                p.name = name;
            }
            // fields: distinct within one fieldset
            let mut used_f: Vec<String> = vec![];
            for (k, f) in p.fields.iter_mut().enumerate() {
                let mut name = format!("fld{k}");
                if p.style == Style::Named && f.used {
                    if let Some((Role::Field, n)) = single {
                        if first_field && legal_lower(n) {
                            name = n.to_string();
                            placed.push((Role::Field, name.clone()));
                        }
                        first_field = false;
                    } else if single.is_none() && rng.chance(density) {
                        for _ in 0..6 {
                            let n = pick_field_name(rng);
                            if legal_lower(&n) && !used_f.iter().any(|u| *u == n) {
                                name = n;
                                placed.push((Role::Field, name.clone()));
                                break;
                            }
                        }
                    }
                }
                used_f.push(name.clone());
                f.name = name;
            }
        }
    }
    placed
}

/// Payload types with no derives at all: `crate::P<k>` plus a few std types.
fn bare_payloads(m: &mut Model, rng: &mut Rng) -> String {
    let mut defs = String::new();
    for (k, t) in m.terms.iter_mut().enumerate() {
        // user types whose names contain keywords / the emitter's vocabulary as substrings
        let name = format!("{}{k}", rng.pick_str(&["P", "P", "SelfP", "ItSelf", "NodeP", "TokP", "BoxedP", "StateP", "selfish_p", "EofP"]));
        // "no trait at all" includes the AUTO traits: some payload types are !Send, !Sync, !Unpin, not
        // UnwindSafe, not 'static-friendly (raw pointer, Rc, Cell, PhantomPinned, a boxed closure)
        let body = rng.pick_str(&[
            ";",
            ";",
            "(*const u8);",
            "(std::rc::Rc<u8>);",
            "(std::cell::Cell<u8>, std::marker::PhantomPinned);",
            "(Box<dyn Fn()>);",
            "(std::cell::UnsafeCell<u8>, *mut ());",
            "(std::sync::MutexGuard<'static, u8>);",
        ]);
        match rng.below(6) {
            0 => t.ty = TypeExpr::Unit,
            1 => {
                t.ty = TypeExpr::Generic(vec!["Vec".into()], vec![TypeExpr::path(&format!("crate::{name}"))]);
                defs.push_str(&format!("pub struct {name}{body}\n"));
            }
            2 => {
                // a std type that is not Send directly as the payload
                t.ty = TypeExpr::Generic(vec!["std".into(), "rc".into(), "Rc".into()], vec![TypeExpr::path(&format!("crate::{name}"))]);
                defs.push_str(&format!("pub struct {name}{body}\n"));
            }
            _ => {
                t.ty = TypeExpr::path(&format!("crate::{name}"));
                defs.push_str(&format!("pub struct {name}{body}\n"));
            }
        }
    }
    defs
}

/// Structural classification of the two recorded emitter limitations (see KNOWN_FINDINGS.txt).
fn d11_colliding_locals(m: &Model) -> Vec<String> {
    // a used named field `f` at index `i` such that `{f}_{i}` is the name of a struct
    // nonterminal that is emitted as a unit-like or tuple struct
    let mut out = vec![];
    for nt in &m.nts {
        for p in &nt.prods {
            if p.style != Style::Named {
                continue;
            }
            for (i, f) in p.fields.iter().enumerate() {
                if !f.used {
                    continue;
                }
                let local = format!("{}_{}", f.name, i);
                if m.nts.iter().any(|o| !o.is_enum && o.name == local && (!o.prods[0].any_used() || o.prods[0].style == Style::Tuple)) {
                    out.push(local);
                }
            }
        }
    }
    out
}

fn d13_condition(m: &Model) -> bool {
    m.nts.iter().any(|nt| nt.is_enum && nt.prods.iter().any(|p| p.name == "Error"))
}

fn n_cases(prop: &str, tier: Tier) -> u64 {
    match (prop, tier) {
        ("C05", Tier::Quick) => 2_400,
        ("C05", Tier::Thorough) => 60_000,
        ("C06", Tier::Quick) => 1_600,
        ("C06", Tier::Thorough) => 40_000,
        _ => 10,
    }
}

fn systematic_singles() -> Vec<(Role, &'static str)> {
    let mut v = vec![];
    for n in TYPE_NAME_POOL {
        for r in [Role::Nonterminal, Role::Variant, Role::Terminal, Role::TerminalEnum] {
            if legal_upper(n) {
                v.push((r, *n));
            }
        }
    }
    for n in FIELD_NAME_POOL {
        if legal_lower(n) {
            v.push((Role::Field, *n));
        }
    }
    v
}

/// Two cooperating names: a used named field `f` at index `i` and a struct named `{f}_{i}`.
const PAIR_FIELDS: &[&str] = &["__", "_0", "___0", "_1", "__0", "a", "states", "t"];

fn pair_case(k: usize) -> Option<(Model, Vec<(Role, String)>)> {
    let f = PAIR_FIELDS[k % PAIR_FIELDS.len()];
    let k = k / PAIR_FIELDS.len();
    let i = k % 3;
    // how the struct named `{f}_{i}` is written: empty fieldset, tuple with a used field, named fieldset
    // with only `_` fields, tuple fieldset with only `_` fields (the last three are all *emitted* as
    // unit-like or tuple structs), named fieldset with a used field (a braced struct: control)
    let target_shape = (k / 3) % 5;
    // the other used fields of the same fieldset: none, one with letters after `f`, one with letters
    // first (shifting `f`'s index), a second letter-less one after `f`
    let companion = (k / 15) % 4;
    if k / 60 > 0 {
        return None;
    }
    let target = format!("{f}_{}", if companion == 2 { i + 1 } else { i });
    if !legal_upper(&target) {
        // e.g. `a_0` is not a legal nonterminal name: nothing to test
        return None;
    }
    // start A; struct A { (_: $T)*i  f: B }; struct <target> [($T)]; struct B($T); terminal
    let t = |used: bool| Field { sym: Sym::T(0), used, name: "x".into() };
    let mut a_fields: Vec<Field> = (0..i).map(|_| t(false)).collect();
    a_fields.push(Field { sym: Sym::N(2), used: true, name: f.to_string() });
    match companion {
        1 => a_fields.push(Field { sym: Sym::T(0), used: true, name: "key".into() }),
        2 => a_fields.insert(0, Field { sym: Sym::T(0), used: true, name: "key".into() }),
        3 => a_fields.push(Field { sym: Sym::T(0), used: true, name: if f == "_9" { "_8".into() } else { "_9".into() } }),
        _ => {}
    }
    let nts = vec![
        Nt { name: "A".into(), is_enum: false, prods: vec![Prod { name: String::new(), style: Style::Named, fields: a_fields }], attrs: vec![] },
        Nt {
            name: target.clone(),
            is_enum: false,
            prods: vec![match target_shape {
                0 => Prod { name: String::new(), style: Style::Empty, fields: vec![] },
                1 => Prod { name: String::new(), style: Style::Tuple, fields: vec![t(true)] },
                2 => Prod { name: String::new(), style: Style::Named, fields: vec![t(false), t(false)] },
                3 => Prod { name: String::new(), style: Style::Tuple, fields: vec![t(false)] },
                _ => Prod { name: String::new(), style: Style::Named, fields: vec![Field { sym: Sym::T(0), used: true, name: "val".into() }] },
            }],
            attrs: vec![],
        },
        Nt { name: "B".into(), is_enum: false, prods: vec![Prod { name: String::new(), style: Style::Tuple, fields: vec![t(true)] }], attrs: vec![] },
    ];
    let m = Model { nts, terms: vec![Term { name: "T".into(), ty: TypeExpr::Unit }], term_enum: "Tokn".into(), term_attrs: vec![], start: 0, start_pos: 0, term_pos: 3 };
    Some((m, vec![(Role::Field, f.to_string()), (Role::Nonterminal, target)]))
}

pub fn n_systematic() -> usize {
    systematic_singles().len() + PAIR_FIELDS.len() * 60 + N_VOCABULARY_FAMILIES
}

pub fn c05_case(seed: u64, idx: u64) -> Option<(Model, String, String, Vec<(Role, String)>, bool)> {
    let mut rng = Rng::for_case(seed, "compile-C05", idx);
    let singles = systematic_singles();
    if (idx as usize) >= singles.len() + PAIR_FIELDS.len() * 60 && (idx as usize) < n_systematic() {
        let (mut m, placed) = vocabulary_family_case(idx as usize - singles.len() - PAIR_FIELDS.len() * 60)?;
        let defs = bare_payloads(&mut m, &mut rng);
        let src = m.render();
        let lib = format!("#![allow(warnings)]\n{defs}pub mod gen;\n");
        return Some((m, src, lib, placed, true));
    }
    if (idx as usize) >= singles.len() && (idx as usize) < singles.len() + PAIR_FIELDS.len() * 60 {
        let (mut m, placed) = pair_case(idx as usize - singles.len())?;
        let defs = bare_payloads(&mut m, &mut rng);
        let src = m.render();
        let lib = format!("#![allow(warnings)]\n{defs}pub mod gen;\n");
        return Some((m, src, lib, placed, true));
    }
    let mut m = accepted_model(&mut rng)?;
    let systematic = (idx as usize) < singles.len();
    let placed = if systematic {
        let (r, n) = singles[idx as usize];
        // make sure the role exists in the grammar
        match r {
            Role::Variant => {
                if let Some(nt) = m.nts.iter_mut().find(|n| !n.prods.is_empty()) {
                    nt.is_enum = true;
                }
            }
            Role::Field => {
                if let Some(p) = m.nts.iter_mut().flat_map(|n| n.prods.iter_mut()).find(|p| !p.fields.is_empty()) {
                    p.style = Style::Named;
                    p.fields[0].used = true;
                }
            }
            _ => {}
        }
        adversarial_names(&mut m, &mut rng, 0.0, Some((r, n)))
    } else {
        let density = *rng.pick(&[0.15, 0.3, 0.6, 0.9]);
        adversarial_names(&mut m, &mut rng, density, None)
    };
    let defs = bare_payloads(&mut m, &mut rng);
    let src = m.render();
    let lib = format!("#![allow(warnings)]\n{defs}pub mod gen;\n");
    Some((m, src, lib, placed, systematic))
}

// ---------------------------------------------------------------------------
// C06 client

/// The declared payload type as a client outside the module must write it: a bare name that is one of
/// the grammar's own nonterminals denotes the emitted type of that name.
fn client_type(m: &Model, ty: &TypeExpr) -> String {
    if let TypeExpr::Path(p) = ty {
        if p.len() == 1 && m.nts.iter().any(|n| n.name == p[0]) {
            return format!("gen::{}", p[0]);
        }
    }
    ty.text()
}

fn rust_type(m: &Model, s: Sym) -> String {
    match s {
        Sym::N(i) => format!("Box<gen::{}>", m.nts[i].name),
        Sym::T(i) => client_type(m, &m.terms[i].ty),
    }
}

fn client_source(m: &Model) -> String {
    let tok = &m.term_enum;
    let mut s = String::from("mod client {\n    use super::gen;\n");
    // terminal enum
    for (k, t) in m.terms.iter().enumerate() {
        s.push_str(&format!("    fn term_ctor_{k}(v: {}) -> gen::{tok} {{ gen::{tok}::{}(v) }}\n", client_type(m, &t.ty), t.name));
    }
    s.push_str(&format!("    fn term_match(t: gen::{tok}) {{\n        match t {{\n"));
    for t in &m.terms {
        s.push_str(&format!("            gen::{tok}::{}(x) => {{ let _: {} = x; }}\n", t.name, client_type(m, &t.ty)));
    }
    s.push_str("        }\n    }\n");
    let pattern = |path: &str, p: &Prod| -> (String, String, String) {
        // (constructor expression from args a0.., pattern binding b0.., type ascriptions)
        let used: Vec<(usize, &Field)> = p.fields.iter().enumerate().filter(|(_, f)| f.used).collect();
        if used.is_empty() {
            return (path.to_string(), path.to_string(), String::new());
        }
        let asc: String = used.iter().map(|(i, f)| format!("let _: {} = b{i}; ", rust_type(m, f.sym))).collect();
        match p.style {
            Style::Named => (
                format!("{path} {{ {} }}", used.iter().map(|(i, f)| format!("{}: a{i}", f.name)).collect::<Vec<_>>().join(", ")),
                format!("{path} {{ {} }}", used.iter().map(|(i, f)| format!("{}: b{i}", f.name)).collect::<Vec<_>>().join(", ")),
                asc,
            ),
            _ => (
                format!("{path}({})", used.iter().map(|(i, _)| format!("a{i}")).collect::<Vec<_>>().join(", ")),
                format!("{path}({})", used.iter().map(|(i, _)| format!("b{i}")).collect::<Vec<_>>().join(", ")),
                asc,
            ),
        }
    };
    for (ni, nt) in m.nts.iter().enumerate() {
        let ty = format!("gen::{}", nt.name);
        if nt.is_enum {
            for (vi, p) in nt.prods.iter().enumerate() {
                let args: String = p.fields.iter().enumerate().filter(|(_, f)| f.used).map(|(i, f)| format!("a{i}: {}", rust_type(m, f.sym))).collect::<Vec<_>>().join(", ");
                let (ctor, _, _) = pattern(&format!("{ty}::{}", p.name), p);
                s.push_str(&format!("    fn build_{ni}_{vi}({args}) -> {ty} {{ {ctor} }}\n"));
            }
            s.push_str(&format!("    fn take_{ni}(x: {ty}) {{\n        match x {{\n"));
            for p in &nt.prods {
                let (_, pat, asc) = pattern(&format!("{ty}::{}", p.name), p);
                s.push_str(&format!("            {pat} => {{ {asc}}}\n"));
            }
            s.push_str("        }\n    }\n");
        } else {
            let p = &nt.prods[0];
            let args: String = p.fields.iter().enumerate().filter(|(_, f)| f.used).map(|(i, f)| format!("a{i}: {}", rust_type(m, f.sym))).collect::<Vec<_>>().join(", ");
            let (ctor, pat, asc) = pattern(&ty, p);
            s.push_str(&format!("    fn build_{ni}({args}) -> {ty} {{ {ctor} }}\n"));
            s.push_str(&format!("    fn take_{ni}(x: {ty}) {{ let {pat} = x; {asc}}}\n"));
            // public fields can also be read by name / position
            for (pos, (i, f)) in p.fields.iter().enumerate().filter(|(_, f)| f.used).enumerate() {
                let access = if p.style == Style::Named { f.name.clone() } else { pos.to_string() };
                s.push_str(&format!("    fn read_{ni}_{i}(x: {ty}) -> {} {{ x.{access} }}\n", rust_type(m, f.sym)));
            }
        }
    }
    let start = &m.nts[m.start].name;
    s.push_str(&format!(
        "    fn sig() {{\n        let _f: fn(Vec<gen::{tok}>) -> Result<gen::{start}, Option<gen::{tok}>> = gen::parse;\n        let _g: fn(std::iter::Empty<gen::{tok}>) -> Result<gen::{start}, Option<gen::{tok}>> = gen::parse;\n        let _h: fn(std::collections::VecDeque<gen::{tok}>) -> Result<gen::{start}, Option<gen::{tok}>> = gen::parse::<std::collections::VecDeque<gen::{tok}>>;\n        let _r: Result<gen::{start}, Option<gen::{tok}>> = gen::parse(std::iter::empty::<gen::{tok}>());\n    }}\n"
    ));
    s.push_str("}\n");
    s
}

pub fn c06_case(seed: u64, idx: u64) -> Option<(Model, String, String)> {
    let mut rng = Rng::for_case(seed, "compile-C06", idx);
    let mut m = if idx % 12 == 11 {
        // many terminals / many variants / long right-hand sides
        let (cfg, force) = crate::gen::big_cfg(&mut rng, 120);
        let r = lr::build_reference(&cfg, 3000)?;
        if r.lalr_conflict {
            return None;
        }
        let mut m = model_from_cfg(&cfg, &force);
        assign_random_shapes(&mut m, &mut rng, 0.7);
        m
    } else {
        accepted_model(&mut rng)?
    };
    // systematically cover all masks x styles for k <= 3 on the first production
    if let Some(p) = m.nts.iter_mut().flat_map(|n| n.prods.iter_mut()).find(|p| !p.fields.is_empty() && p.fields.len() <= 3) {
        let k = p.fields.len();
        let combo = (idx as usize) % ((1 << k) * 2);
        p.style = if combo & 1 == 0 { Style::Named } else { Style::Tuple };
        for (i, f) in p.fields.iter_mut().enumerate() {
            f.used = (combo >> (i + 1)) & 1 == 1;
        }
    }
    for t in m.terms.iter_mut() {
        let k = rng.below(runner::PAYLOADS.len());
        t.ty = runner::payload_type(k);
    }
    if rng.chance(0.3) {
        confusable_terminal_names(&mut m, &mut rng);
    } else if rng.chance(0.3) {
        crate::model::shuffle_names(&mut m, &mut rng);
    }
    crate::model::vary_member_names(&mut m, &mut rng);
    if rng.chance(0.15) && !m.terms.is_empty() {
        // a payload type spelled like one of the grammar's own nonterminals (`$Quoted: Expr`): legal, it
        // denotes the emitted type of that name.  (Not a nonterminal that holds this terminal by value:
        // that type would contain itself.)
        let k = rng.below(m.terms.len());
        let candidates: Vec<usize> =
            (0..m.nts.len()).filter(|j| !m.nts[*j].prods.iter().any(|p| p.fields.iter().any(|f| f.used && f.sym == Sym::T(k)))).collect();
        if !candidates.is_empty() {
            let j = *rng.pick(&candidates);
            m.terms[k].ty = TypeExpr::path(&m.nts[j].name.clone());
        }
    }
    let mut text_only = false;
    if rng.chance(0.12) {
        // attributes that compile on any item: lint levels, and whatever can be assembled from the string
        // literals of kiki's own sources (a magic key must not change the declared shapes)
        let d = crate::gtext::repo_dictionary();
        for nt in m.nts.iter_mut() {
            if rng.chance(0.5) {
                nt.attrs.push(format!("#[allow({})]", rng.pick_str(crate::gtext::LINT_NAMES)));
            }
            if !d.attr_literals.is_empty() && rng.chance(0.5) {
                // (rustc does not know these attributes: such a case is checked at the text level only)
                nt.attrs.push(d.pick_attr(&mut rng).unwrap());
                text_only = true;
            }
        }
    }
    let src = m.render();
    let lib = if text_only {
        String::new()
    } else {
        format!("#![allow(warnings)]\npub struct Pay(pub usize);\npub struct ItSelfNode(pub usize);\npub mod gen;\n{}", client_source(&m))
    };
    Some((m, src, lib))
}

impl Compile {
    fn c05(&self, w: &mut Worker, idx: u64) {
        {
            let v = emitted_vocabulary();
            w.max("harvested-emitter-vocabulary:type-like-names", v.0.len() as u64);
            w.max("harvested-emitter-vocabulary:field-like-names", v.1.len() as u64);
        }
        let Some((m, src, lib, placed, systematic)) = c05_case(w.seed, idx) else {
            w.count("skipped:no-accepted-grammar-drawn");
            return;
        };
        let (out, _) = kside::generate(&src, 50_000_000);
        let text = match out {
            GenOutcome::Ok(t) => t,
            other => {
                w.count(&format!("masked_upstream:{}", other.class()));
                return;
            }
        };
        let dir = w.scratch.join(format!("c05-{}", w.shard));
        let res = runner::compile(&dir, &text, &lib, true);
        w.eval();
        w.count(if systematic { "modules:single-hostile-name" } else { "modules:random-hostile-names" });
        for (r, n) in &placed {
            w.count(&format!("role:{}", r.name()));
            w.set_insert("names-used", format!("{}:{}", r.name(), n));
        }
        if !placed.is_empty() {
            w.nontrivial(rng::hash_str(&src));
        }
        if m.terms.is_empty() {
            w.count("modules:zero-terminals");
        }
        match res {
            CompileResult::Ok(_) => {
                w.count("compiled");
                if w.wants_sample("compiled") && placed.len() >= 3 {
                    w.sample("compiled", json!({"grammar_src": src, "hostile_names": placed.iter().map(|(r, n)| format!("{}:{n}", r.name())).collect::<Vec<_>>()}));
                }
            }
            CompileResult::Unavailable(e) => w.inconclusive(&format!("rustc unavailable: {e}")),
            CompileResult::Failed(stderr) => {
                let codes = runner::error_codes(&stderr);
                let first = codes.first().cloned().unwrap_or_else(|| "error".to_string());
                w.count(&format!("rustc-error:{first}"));
                let first_line = stderr.lines().find(|l| l.contains("error")).unwrap_or("").to_string();
                let colliding = d11_colliding_locals(&m);
                let shadow_lines = stderr.lines().filter(|l| l.contains("error[")).all(|l| {
                    (l.contains("error[E0530]") || l.contains("error[E0308]")) && colliding.iter().any(|n| l.contains(&format!("`{n}`")) || l.contains("let bindings cannot shadow"))
                });
                let sig = if !colliding.is_empty() && shadow_lines && codes.iter().any(|c| c == "E0530" || c == "E0308") {
                    "rustc-E0530-E0308:local-variable-shadows-unit-or-tuple-struct".to_string()
                } else if d13_condition(&m) && stderr.contains("ambiguous associated item") && codes.iter().all(|c| c == "error") {
                    "rustc-ambiguous-associated-item:variant-named-Error".to_string()
                } else {
                    // attribute the failure to the identifier rustc complains about first
                    let ident: String = first_line.split('`').nth(1).unwrap_or("").chars().filter(|c| c.is_ascii_alphanumeric() || *c == '_').take(40).collect();
                    let what = if m.terms.is_empty() { "zero-terminals".to_string() } else if ident.is_empty() { "unattributed".to_string() } else { ident };
                    format!("rustc-{first}:{what}")
                };
                w.violation(
                    &sig,
                    &format!("the emitted module does not compile: {}", crate::util::truncate(&first_line, 300)),
                    json!({"grammar_src": src, "lib_rs": lib, "hostile_names": placed.iter().map(|(r, n)| format!("{}:{n}", r.name())).collect::<Vec<_>>(), "rustc_stderr": crate::util::truncate(&stderr, 1500)}),
                );
            }
        }
    }

    fn c06(&self, w: &mut Worker, idx: u64) {
        let Some((m, src, lib)) = c06_case(w.seed, idx) else {
            w.count("skipped:no-accepted-grammar-drawn");
            return;
        };
        let (out, _) = kside::generate(&src, 50_000_000);
        let text = match out {
            GenOutcome::Ok(t) => t,
            other => {
                w.count(&format!("masked_upstream:{}", other.class()));
                return;
            }
        };
        w.eval();
        let witness = |d: Value| json!({"grammar_src": src, "detail": d});
        // text level
        match skim::lex(&text).and_then(|t| skim::items(&t)) {
            Err(e) => w.inconclusive(&format!("cannot read the emitted text: {e}")),
            Ok(items) => {
                match shape::check_type_definitions(&items, &m, true) {
                    Ok(n) => w.count_n("type-definitions-compared", n as u64),
                    Err(e) => {
                        let sig = if e.contains("is_pub: false") && e.contains("is_pub: true") { "text:field-visibility-differs" } else { "text:type-definition-differs" };
                        w.violation(sig, &e, witness(Value::Null));
                    }
                }
                match shape::check_parse_signature(&items, &m.nts[m.start].name, &m.term_enum) {
                    Ok(()) => w.count("parse-signatures-compared"),
                    Err(e) => w.violation("text:parse-signature-differs", &e, witness(Value::Null)),
                }
            }
        }
        for nt in &m.nts {
            for p in &nt.prods {
                let mask: String = p.fields.iter().map(|f| if f.used { 'u' } else { '_' }).collect();
                let kinds: String = p.fields.iter().map(|f| if matches!(f.sym, Sym::T(_)) { 't' } else { 'n' }).collect();
                let shape_key = format!("{}:{:?}:{}:{}", if nt.is_enum { "variant" } else { "struct" }, p.style, mask, kinds);
                w.nontrivial(rng::hash_str(&shape_key));
                w.set_insert("declaration-shapes", shape_key);
            }
            if nt.prods.is_empty() {
                w.count("variantless-enums");
            }
        }
        // type level: the client must type-check
        if lib.is_empty() {
            w.count("clients-skipped:attributes-unknown-to-rustc (text level only)");
            return;
        }
        let dir = w.scratch.join(format!("c06-{}", w.shard));
        match runner::compile(&dir, &text, &lib, true) {
            CompileResult::Ok(_) => {
                w.count("clients-type-checked");
                if w.wants_sample("client") {
                    w.sample("client", json!({"grammar_src": src, "client": crate::util::truncate(&lib, 1500)}));
                }
            }
            CompileResult::Unavailable(e) => w.inconclusive(&format!("rustc unavailable: {e}")),
            CompileResult::Failed(stderr) => {
                let codes = runner::error_codes(&stderr);
                let first = codes.first().cloned().unwrap_or_else(|| "error".to_string());
                let first_line = stderr.lines().find(|l| l.contains("error")).unwrap_or("").to_string();
                let in_gen = stderr.lines().filter(|l| l.contains("error")).all(|l| l.starts_with("gen.rs"));
                if in_gen {
                    // the module itself does not compile: C05's event
                    w.count(&format!("masked_upstream:module-does-not-compile:{first}"));
                } else {
                    let what = if first == "E0603" || first == "E0616" || first == "E0451" { "private-item-or-field" } else { "shape" };
                    w.violation(
                        &format!("client-does-not-type-check:{first}:{what}"),
                        &format!("a client written against the declared shapes does not type-check: {}", crate::util::truncate(&first_line, 300)),
                        json!({"grammar_src": src, "lib_rs": lib, "rustc_stderr": crate::util::truncate(&stderr, 1500)}),
                    );
                }
            }
        }
    }
}

impl Engine for Compile {
    fn name(&self) -> &'static str {
        "compile"
    }
    fn total_cases(&self, prop: &str, tier: Tier) -> u64 {
        n_cases(prop, tier)
    }
    fn run_case(&self, w: &mut Worker, idx: u64) {
        match w.prop.as_str() {
            "C05" => self.c05(w, idx),
            "C06" => self.c06(w, idx),
            _ => {}
        }
    }
    fn describe_case(&self, prop: &str, _tier: Tier, seed: u64, idx: u64, _sub: u64) -> Value {
        match prop {
            "C05" => c05_case(seed, idx).map(|c| json!({"class": "hostile-naming", "grammar_src": c.1})).unwrap_or(Value::Null),
            _ => c06_case(seed, idx).map(|c| json!({"class": "shape", "grammar_src": c.1})).unwrap_or(Value::Null),
        }
    }
    fn rule(&self, prop: &str) -> String {
        match prop {
            "C05" => "inputs: accepted grammars (combinator-built and random, <=6 nonterminals) whose nonterminals, variants, terminals, terminal enum and named fields are renamed from adversarial pools: every helper name the emitter uses or might use (State Node Action RuleKind Eof Quasiterminal QuasiterminalKind NonterminalKind ACTION_TABLE GOTO_TABLE S Terminal Shift Reduce Accept R0 S0 Error Item Output ...), their uniquified forms (State2, Eof2 ...), letter-less names (__ _0 ___0), a 100-character name; field names from the emitter's own locals, parameters and functions (states nodes node t0 src top_state new_state rule_kind ...). First every single pool name alone in every role (systematic), then random mixes at densities 0.15-0.9. Excluded by the precondition: Rust keywords, Kiki's reserved words, 2021 prelude items, duplicate fields in one fieldset. Payload types are `pub struct P;` with no derive at all (also inside Vec<..>, and unit). One evaluation = one emitted module compiled with rustc --emit=metadata (warnings allowed, deny-by-default lints are errors). Distinct non-trivial = distinct sources containing at least one pool name.".into(),
            _ => "inputs: accepted grammars with all fieldset patterns (named / tuple / empty, every used/skipped mask for <=3 fields systematically, random beyond), structs and enums, variant-less enums, 0..n terminals with payload types from a pool of 12 real types (up to four generic levels, one with a keyword inside its name, pairs with equal argument lists under different callees). One evaluation = one emitted module checked twice: (text) the emitted `pub enum`/`pub struct` items read token-wise must equal the expected shape (names, variants and used fields in order, Box<N> / payload type, pub on struct fields, unit-like when nothing is used) and `parse` must have the signature pub fn parse<X>(_: X) -> Result<Start, Option<Terminal>> where X: IntoIterator<Item = Terminal>; (types) a generated client outside the module constructs every type, destructures it without `..`, matches every enum without wildcard, ascribes each field its expected type, reads struct fields, builds each terminal from a value of the declared type and coerces parse to fn(Vec<T>), fn(Empty<T>) and fn(VecDeque<T>) -> Result<Start, Option<T>>, and must type-check. Distinct non-trivial = distinct declaration shapes (kind, style, mask, symbol kinds).".into(),
        }
    }
    fn floors(&self, prop: &str, _tier: Tier, agg: &Agg) -> Vec<String> {
        let mut out = vec![];
        if agg.evaluations < 300 {
            out.push(format!("only {} modules compiled", agg.evaluations));
        }
        if prop == "C06" && agg.set_len("declaration-shapes") < 40 {
            out.push("fewer than 40 distinct declaration shapes".into());
        }
        out
    }
    fn assumptions(&self, _prop: &str) -> Vec<String> {
        vec!["the stable rustc on PATH is the judge of what compiles; edition 2021".into()]
    }
    fn extra_coverage(&self, _prop: &str, _tier: Tier, _agg: &Agg) -> Map<String, Value> {
        Map::new()
    }
    fn cpu_budget_s(&self, _prop: &str, _tier: Tier) -> u64 {
        600
    }
}
