//! Engine `lalr-diff` (C04, C11, C17): grammar -> kiki::generate vs. the
//! reference LALR(1) construction (canonical LR(1) merged by core).

use crate::coord::{Agg, Engine, Tier, Worker};
use crate::gen::{self, SmallScope, Source};
use crate::kside::{self, GenOutcome, Names};
use crate::lr::{self, Act, Reference};
use crate::model::*;
use crate::rng::Rng;
use crate::skim::{self, EAct};
use serde_json::{json, Map, Value};

pub struct LalrDiff;

pub const MAX_REF_STATES: usize = 20_000;

pub struct Case {
    pub source: Source,
    pub model: Model,
    pub cfg: Cfg,
    pub src: String,
}

fn n_random(prop: &str, tier: Tier) -> u64 {
    match (prop, tier) {
        ("C04", Tier::Quick) => 60_000,
        ("C04", Tier::Thorough) => 2_000_000,
        ("C11", Tier::Quick) => 40_000,
        ("C11", Tier::Thorough) => 1_000_000,
        ("C17", Tier::Quick) => 40_000,
        ("C17", Tier::Thorough) => 1_000_000,
        _ => 1000,
    }
}

fn n_enumerated(tier: Tier) -> u64 {
    match tier {
        Tier::Quick => 0,
        Tier::Thorough => SmallScope::new().count(),
    }
}

pub fn make_case(seed: u64, tier: Tier, idx: u64, scope: &SmallScope) -> Case {
    let mut rng = Rng::for_case(seed, "lalr-diff", idx);
    let n_enum = n_enumerated(tier);
    let corpus = gen::CORPUS.len() as u64;
    let (source, cfg, force) = if idx >= corpus && idx < corpus + n_enum {
        let cfg = scope.get(idx - corpus).expect("small scope index");
        let force = vec![idx % 2 == 0; cfg.nn];
        (Source::Enumerated, cfg, force)
    } else if idx % 997 == 7 {
        // the state-count family, regularly (thresholds and offsets are drawn inside)
        let (c, f) = gen::big_cfg_variant(&mut rng, 400, 7);
        (Source::Big, c, f)
    } else {
        gen::grammar_for_case(&mut rng, idx)
    };
    let mut model = model_from_cfg(&cfg, &force);
    assign_random_shapes(&mut model, &mut rng, 0.5);
    if rng.chance(0.5) {
        shuffle_names(&mut model, &mut rng);
    } else if rng.chance(0.08) {
        prelude_names(&mut model, &mut rng);
    }
    if rng.chance(0.25) {
        // attributes (they travel inside the validated grammar attached to a conflict error)
        for nt in &mut model.nts {
            for k in 0..rng.below(3) {
                nt.attrs.push(format!("#[derive(Debug{})]", ", Clone".repeat(k)));
            }
        }
        for k in 0..rng.below(3) {
            model.term_attrs.push(format!("#[allow(unused{})]", ", dead_code".repeat(k)));
        }
    }
    model.start_pos = rng.below(model.nts.len() + 1);
    model.term_pos = rng.below(model.nts.len() + 1);
    let src = model.render();
    // the grammar the reference works on is the one the model denotes (rule numbering included)
    let cfg = model.cfg();
    Case {
        source,
        model,
        cfg,
        src,
    }
}

pub fn step_limit(r: &Reference) -> u64 {
    let cfg = r.ctx.cfg;
    let items: u64 = r.lalr.states.iter().map(|s| s.iter().map(|(_, la)| la.len() as u64).sum::<u64>()).sum();
    let states = r.lalr.states.len() as u64;
    1_000_000 + 1000 * (states + items + 1) * (cfg.rules.len() as u64 + 1) * (cfg.nt as u64 + 2)
}

/// Compare emitted tables with the reference LALR(1) automaton up to state renumbering.
pub fn compare_tables(t: &skim::Tables, r: &Reference, m: &Model) -> Result<(usize, usize), String> {
    let cfg = r.ctx.cfg;
    let nt = cfg.nt;
    if t.action_cols.len() != nt + 1 {
        return Err(format!("{} action columns for {} terminals", t.action_cols.len(), nt));
    }
    for (i, term) in m.terms.iter().enumerate() {
        if t.action_cols[i] != term.name {
            return Err(format!("action column {i} is {:?}, terminal {i} is {:?}", t.action_cols[i], term.name));
        }
    }
    if t.goto_cols.len() != cfg.nn {
        return Err("goto column count differs from the number of nonterminals".into());
    }
    for (i, n) in m.nts.iter().enumerate() {
        if t.goto_cols[i] != n.name {
            return Err(format!("goto column {i} is {:?}, nonterminal {i} is {:?}", t.goto_cols[i], n.name));
        }
    }
    if t.n_rule_kinds != cfg.rules.len() {
        return Err(format!("{} rule kinds for {} productions", t.n_rule_kinds, cfg.rules.len()));
    }
    if t.n_states != r.lalr.states.len() {
        return Err(format!(
            "{} emitted states, reference LALR(1) automaton has {} (one per reachable core)",
            t.n_states,
            r.lalr.states.len()
        ));
    }
    // simultaneous walk
    let mut map: Vec<Option<usize>> = vec![None; r.lalr.states.len()];
    let mut used = vec![false; t.n_states];
    map[r.lalr.start] = Some(t.start);
    used[t.start] = true;
    let mut work = vec![r.lalr.start];
    let mut cells = 0usize;
    let bind = |map: &mut Vec<Option<usize>>, used: &mut Vec<bool>, work: &mut Vec<usize>, rs: usize, es: usize| -> Result<(), String> {
        match map[rs] {
            Some(e) if e == es => Ok(()),
            Some(e) => Err(format!("reference state {rs} corresponds to emitted states {e} and {es}")),
            None => {
                if used[es] {
                    return Err(format!("emitted state {es} corresponds to two reference states"));
                }
                used[es] = true;
                map[rs] = Some(es);
                work.push(rs);
                Ok(())
            }
        }
    };
    while let Some(rs) = work.pop() {
        let es = map[rs].unwrap();
        for la in 0..=nt {
            cells += 1;
            let exp = &r.lalr_actions[rs][la];
            let got = t.action[es][la];
            match exp.as_slice() {
                [] => {
                    if got != EAct::Err {
                        return Err(format!("state {es} (ref {rs}) lookahead {la}: expected Err, emitted {got:?}"));
                    }
                }
                [Act::Shift(target)] => match got {
                    EAct::Shift(e) => bind(&mut map, &mut used, &mut work, *target, e)?,
                    _ => return Err(format!("state {es} (ref {rs}) lookahead {la}: expected a shift, emitted {got:?}")),
                },
                [Act::Reduce(rule)] => {
                    if got != EAct::Reduce(*rule) {
                        return Err(format!("state {es} (ref {rs}) lookahead {la}: expected Reduce({rule}), emitted {got:?}"));
                    }
                }
                [Act::Accept] => {
                    if got != EAct::Accept {
                        return Err(format!("state {es} (ref {rs}) lookahead {la}: expected Accept, emitted {got:?}"));
                    }
                }
                _ => return Err("reference automaton has a conflict".into()),
            }
        }
        for n in 0..cfg.nn {
            cells += 1;
            let exp = r.lalr.trans[rs].get(&Sym::N(n));
            let got = t.goto[es][n];
            match (exp, got) {
                (None, None) => {}
                (Some(target), Some(e)) => bind(&mut map, &mut used, &mut work, *target, e)?,
                _ => return Err(format!("state {es} (ref {rs}) goto on nonterminal {n}: expected {exp:?}, emitted {got:?}")),
            }
        }
    }
    if map.iter().any(|m| m.is_none()) || used.iter().any(|u| !u) {
        return Err("the walk from the start states does not reach every state".into());
    }
    Ok((t.n_states, cells))
}

/// C11: does the conflict error describe a genuine conflict of the genuine automaton?
pub fn check_conflict_err(e: &kiki::TableConflictErr, r: &Reference, m: &Model, src: &str) -> Result<String, (String, String)> {
    use kiki::data::machine::{Lookahead, RuleIndex};
    let cfg = r.ctx.cfg;
    let names = Names::of(m);
    let mach = &e.machine;
    if e.state_index.0 >= mach.states.len() {
        return Err(("state-index-out-of-range".into(), format!("state index {} but the attached automaton has {} states", e.state_index.0, mach.states.len())));
    }
    let st = &mach.states[e.state_index.0];
    for it in [&e.items.0, &e.items.1] {
        if !st.items.contains(it) {
            return Err(("item-not-in-state".into(), format!("reported item {it:?} is not in state {}", e.state_index.0)));
        }
    }
    // demanded actions
    #[derive(PartialEq, Eq, Debug, Clone)]
    enum D {
        Shift(String),
        Reduce(usize),
        Accept,
        None,
    }
    let demand = |it: &kiki::data::machine::StateItem| -> Result<(Option<usize>, D), String> {
        let core = kside::item_core(it, cfg.rules.len())?;
        let rhs = r.ctx.rhs(core.rule);
        let d = it.dot;
        if d > rhs.len() {
            return Err(format!("dot {d} beyond the right-hand side"));
        }
        if d < rhs.len() {
            match rhs[d] {
                Sym::T(t) => Ok((Some(t), D::Shift(m.terms[t].name.clone()))),
                Sym::N(_) => Ok((None, D::None)),
            }
        } else {
            let la = kside::lookahead_index(&it.lookahead, &names, cfg.nt)?;
            match it.rule_index {
                RuleIndex::Augmented => {
                    if it.lookahead != Lookahead::Eof {
                        return Err("completed augmented item with a terminal lookahead".into());
                    }
                    Ok((Some(cfg.nt), D::Accept))
                }
                RuleIndex::Original(i) => Ok((Some(la), D::Reduce(i))),
            }
        }
    };
    let d0 = demand(&e.items.0).map_err(|s| ("malformed-item".to_string(), s))?;
    let d1 = demand(&e.items.1).map_err(|s| ("malformed-item".to_string(), s))?;
    let genuine = match (&d0, &d1) {
        ((Some(a), x), (Some(b), y)) => a == b && x != y,
        _ => false,
    };
    if !genuine {
        return Err(("not-a-conflict".into(), format!("items {:?} and {:?} demand {:?} and {:?}: no conflicting actions on a common lookahead", e.items.0, e.items.1, d0, d1)));
    }
    // attached automaton = reference LALR(1) automaton
    let a = kside::machine_to_automaton(mach, &names, cfg.rules.len(), cfg.nt).map_err(|s| ("malformed-automaton".to_string(), s))?;
    kside::automata_isomorphic(&r.lalr, &a).map_err(|s| ("automaton-not-lalr".to_string(), s))?;
    // attached grammar = the validated input grammar
    crate::rkiki::compare_validated_file(&e.file, src).map_err(|s| ("attached-file-differs".to_string(), s))?;
    let kind = match (&d0.1, &d1.1) {
        (D::Shift(_), D::Reduce(_)) | (D::Reduce(_), D::Shift(_)) => "shift/reduce",
        (D::Reduce(_), D::Reduce(_)) => "reduce/reduce",
        (D::Accept, D::Reduce(_)) | (D::Reduce(_), D::Accept) => "accept/reduce",
        _ => "other",
    };
    Ok(kind.to_string())
}

impl LalrDiff {
    fn run(&self, w: &mut Worker, idx: u64, scope: &SmallScope) {
        let case = make_case(w.seed, w.tier, idx, scope);
        let prop = w.prop.clone();
        w.count(&format!("source:{}", case.source.name()));
        let Some(r) = lr::build_reference(&case.cfg, MAX_REF_STATES) else {
            w.count("skipped:reference-too-large");
            return;
        };
        let limit = step_limit(&r);
        let (out, hc) = kside::generate(&case.src, limit);
        w.max("oset_checks_per_call", hc.oset_checks);
        w.max("max-terminals", case.cfg.nt as u64);
        w.max("max-nonterminals", case.cfg.nn as u64);
        w.max("max-rules", case.cfg.rules.len() as u64);
        w.max("max-rhs-length", case.cfg.rules.iter().map(|r| r.rhs.len()).max().unwrap_or(0) as u64);
        let class = r.class();
        let witness = |extra: Value| -> Value {
            json!({"grammar_src": case.src, "cfg": case.cfg.show(), "reference_class": class.name(),
                   "reference_lalr_states": r.lalr.states.len(), "kiki": out.render(), "detail": extra})
        };
        // masked upstream?
        match &out {
            GenOutcome::Panic(p) => {
                if p.message.starts_with("KIKI_VERIF_OSET") {
                    // H3 fired: that is C18's event, but it also invalidates this run's result
                    w.count("masked_upstream:oset-invariant");
                } else {
                    w.count("masked_upstream:panic");
                }
                return;
            }
            GenOutcome::Err(e) if !matches!(e, kiki::KikiErr::TableConflict(_)) => {
                w.count(&format!("masked_upstream:{}", kside::err_kind(e)));
                return;
            }
            _ => {}
        }
        let kiki_ok = matches!(out, GenOutcome::Ok(_));
        match prop.as_str() {
            "C04" => {
                w.eval();
                w.count(&format!("class:{}", class.name()));
                let key = format!("agreement:kiki={},reference={}", if kiki_ok { "Ok" } else { "TableConflict" }, if r.lalr_conflict { "conflict" } else { "conflict-free" });
                w.count(&key);
                if r.lalr_conflict {
                    for k in lr::conflict_kinds(&r.lalr_actions) {
                        w.count(&format!("reference-conflict-kind:{k:?}"));
                    }
                }
                let an = lr::analyse(&case.cfg);
                let has_reduce_state = !case.cfg.rules.is_empty() && an.reachable.iter().any(|x| *x);
                if has_reduce_state && case.cfg.rules.len() >= 2 {
                    w.nontrivial(case.cfg.hash64());
                }
                if kiki_ok && r.lalr_conflict {
                    w.violation(
                        &format!("parser-emitted-for-conflicting-grammar:{}", class.name()),
                        "generate returned Ok although the LALR(1) automaton of the grammar has a conflict",
                        witness(json!({"reference_conflicts": format!("{:?}", lr::conflict_kinds(&r.lalr_actions))})),
                    );
                } else if !kiki_ok && !r.lalr_conflict {
                    w.violation(
                        &format!("conflict-free-grammar-rejected:{}", class.name()),
                        "generate returned a table-conflict error although the LALR(1) automaton is conflict-free",
                        witness(Value::Null),
                    );
                }
                if w.wants_sample(class.name()) {
                    w.sample(class.name(), json!({"grammar_src": case.src, "class": class.name(), "kiki": out.class(), "reference_conflict": r.lalr_conflict}));
                }
            }
            "C11" => {
                let GenOutcome::Err(kiki::KikiErr::TableConflict(e)) = &out else {
                    w.count("not-applicable:no-conflict-error");
                    return;
                };
                w.eval();
                w.max("automaton_states", e.machine.states.len() as u64);
                match check_conflict_err(e, &r, &case.model, &case.src) {
                    Ok(kind) => {
                        w.count(&format!("conflict-kind:{kind}"));
                        if r.lalr.states.len() >= 3 {
                            w.nontrivial(case.cfg.hash64());
                        }
                        if w.wants_sample(&kind) {
                            w.sample(&kind, json!({"grammar_src": case.src, "state_index": e.state_index.0,
                                "items": format!("{:?}", e.items), "automaton_states": e.machine.states.len()}));
                        }
                    }
                    Err((sig, what)) => w.violation(&sig, &what, witness(json!({"state_index": e.state_index.0, "items": format!("{:?}", e.items)}))),
                }
            }
            "C17" => {
                let GenOutcome::Ok(text) = &out else {
                    w.count("not-applicable:no-parser-emitted");
                    return;
                };
                if r.lalr_conflict {
                    w.count("masked_upstream:accepted-a-conflicting-grammar");
                    return;
                }
                w.eval();
                let read = skim::lex(text).and_then(|t| skim::items(&t)).and_then(|i| skim::tables(&i));
                let t = match read {
                    Ok(t) => t,
                    Err(e) => {
                        w.inconclusive(&format!("cannot read the emitted tables: {e}"));
                        return;
                    }
                };
                match compare_tables(&t, &r, &case.model) {
                    Ok((states, cells)) => {
                        w.count_n("states_compared", states as u64);
                        w.count_n("cells_compared", cells as u64);
                        w.max("max_states", states as u64);
                        w.count(&format!("class:{}", class.name()));
                        if r.lalr_tighter_than_slr() {
                            w.count("lalr-lookaheads-tighter-than-follow");
                        }
                        if states >= 3 {
                            w.nontrivial(case.cfg.hash64());
                        }
                        let label = format!("{}", class.name());
                        if w.wants_sample(&label) {
                            w.sample(&label, json!({"grammar_src": case.src, "states": states, "cells": cells, "start_state": t.start}));
                        }
                    }
                    Err(what) => {
                        let sig = what.split(':').next().unwrap_or("tables-differ").chars().filter(|c| !c.is_ascii_digit()).collect::<String>();
                        let sig = format!("tables-differ:{}", sig.split_whitespace().take(4).collect::<Vec<_>>().join("-"));
                        w.violation(&sig, &what, witness(json!({"emitted_start": t.start, "emitted_states": t.n_states})));
                    }
                }
            }
            _ => {}
        }
    }
}

impl Engine for LalrDiff {
    fn name(&self) -> &'static str {
        "lalr-diff"
    }
    fn total_cases(&self, prop: &str, tier: Tier) -> u64 {
        gen::CORPUS.len() as u64 + n_enumerated(tier) + n_random(prop, tier)
    }
    fn run_case(&self, w: &mut Worker, idx: u64) {
        thread_local! { static SCOPE: SmallScope = SmallScope::new(); }
        SCOPE.with(|s| self.run(w, idx, s));
    }
    fn describe_case(&self, _prop: &str, tier: Tier, seed: u64, idx: u64, _sub: u64) -> Value {
        let c = make_case(seed, tier, idx, &SmallScope::new());
        json!({"class": "generated-grammar", "grammar_src": c.src, "source": c.source.name()})
    }
    fn rule(&self, prop: &str) -> String {
        let common = "grammars: the textbook corpus, corpus grammars embedded in random contexts, combinator-built (list/option/bracket/operator) grammars, the LR(1)-not-LALR(1) family, random CFGs (<=6 nonterminals, <=5 terminals, <=4 alternatives, RHS <=5; 85% productive+reachable by construction), and in the thorough tier every grammar with <=2 nonterminals, <=2 terminals, <=2 alternatives, RHS <=2; rendered with random fieldset styles and used/skipped masks";
        match prop {
            "C04" => format!("{common}. One evaluation = generate(src) compared with conflict-freeness of the reference LALR(1) automaton (canonical LR(1) merged by core). Distinct non-trivial = distinct grammars (hash of the production list) with >= 2 productions."),
            "C11" => format!("{common}. One evaluation = one TableConflict error checked (state index, items, genuine conflict, attached automaton isomorphic to the reference LALR(1) automaton with equal lookahead sets, attached grammar equal to the reference AST of the input). Distinct non-trivial = distinct conflicting grammars whose automaton has >= 3 states."),
            _ => format!("{common}. One evaluation = the ACTION/GOTO tables and start state read from one emitted parser compared cell by cell with the reference LALR(1) automaton under a state bijection found by a simultaneous walk. Distinct non-trivial = distinct accepted grammars with >= 3 states."),
        }
    }
    fn floors(&self, prop: &str, tier: Tier, agg: &Agg) -> Vec<String> {
        let mut out = vec![];
        let masked = agg.counters_with_prefix("masked_upstream:");
        let total = self.total_cases(prop, tier);
        if masked * 5 > total {
            out.push(format!("{masked} of {total} cases masked upstream (> 20%)"));
        }
        match prop {
            "C04" => {
                for c in ["class:LALR(1)\\SLR(1)", "class:LR(1)\\LALR(1)", "class:SLR(1)", "class:not LR(1)"] {
                    if agg.counter(c) < 20 {
                        out.push(format!("too few grammars of {c}: {}", agg.counter(c)));
                    }
                }
            }
            "C11" => {
                if agg.evaluations < 1000 {
                    out.push(format!("only {} conflict errors observed", agg.evaluations));
                }
            }
            "C17" => {
                if agg.evaluations < 1000 {
                    out.push(format!("only {} emitted tables compared", agg.evaluations));
                }
                if agg.counter("lalr-lookaheads-tighter-than-follow") < 20 {
                    out.push("too few grammars whose LALR(1) lookaheads are tighter than FOLLOW".into());
                }
            }
            _ => {}
        }
        out
    }
    fn level(&self, prop: &str) -> &'static str {
        match prop {
            "C17" | "C11" => "translation_validation",
            _ => "exploration",
        }
    }
    fn assumptions(&self, _prop: &str) -> Vec<String> {
        vec![
            "the reference LALR(1) construction (harness/src/lr.rs: canonical LR(1) by closure/goto, merged by core) is correct; it is cross-checked against an Earley recogniser and a definitional chart recogniser by the emit-run engine and by `kv selftest`".into(),
            "grammars beyond the generators' bounds (more than ~8 nonterminals / 62 terminals, reference automata above 4000 canonical states) are not observed".into(),
        ]
    }
    fn extra_coverage(&self, prop: &str, tier: Tier, agg: &Agg) -> Map<String, Value> {
        let mut m = Map::new();
        if tier == Tier::Thorough {
            m.insert("small_scope_enumerated_completely".into(), json!(n_enumerated(tier)));
        }
        if prop == "C17" || prop == "C11" {
            m.insert("programs".into(), json!(agg.evaluations));
            m.insert("disagreements_checked".into(), json!(agg.violations.len()));
        }
        m
    }
}
