//! Size / depth stress for C07, inside the property's bounds (source <= 64 KiB,
//! <= 2000 declarations, type nesting <= 256).  Every stress file is run in its
//! own child process, once in the optimised build and once in the unoptimised
//! (dev-profile) build kiki normally runs in (a user's build.rs), on the default
//! 8 MiB main-thread stack, with a CPU budget and an address-space limit.

use crate::coord::{Tier, Worker};
use crate::rng::Rng;
use serde_json::{json, Value};
use std::process::{Command, Stdio};

pub const MAX_BYTES: usize = 64 * 1024;

pub struct Stress {
    pub class: &'static str,
    /// Length of the longest list construct (path, field list, variant list, attribute list ...).
    pub longest_list: usize,
    pub text: String,
}

const KINDS: &[&str] = &[
    "long-path",
    "long-type-argument-list",
    "many-attributes",
    "many-enum-variants",
    "long-tuple-fieldset",
    "long-named-fieldset",
    "many-terminal-variants",
    "many-declarations",
    "deep-type-nesting",
    "long-identifier",
    "long-comment",
    "long-chain-grammar",
    "many-terminals-expression-grammar",
    "wide-alternatives",
    "many-start-statements",
    "long-attribute",
    "deeply-bracketed-attribute",
    "unterminated-long-input",
    "many-enum-variants-dense",
    "many-terminal-variants-dense",
    "long-path-then-syntax-error",
    "long-rhs-late-lookahead",
    "chain-grammar-with-back-edge",
    "long-rhs-left-recursive",
    "many-comment-lines",
];

pub fn n_stress(tier: Tier) -> u64 {
    (KINDS.len() * tier.pick(1, 3)) as u64
}

fn fit(count_for: impl Fn(usize) -> String, want: usize) -> (String, usize) {
    // largest n <= want whose text fits the size bound
    let mut n = want;
    loop {
        let s = count_for(n);
        if s.len() <= MAX_BYTES {
            return (s, n);
        }
        n = n * 9 / 10;
    }
}

pub fn stress_case(tier: Tier, seed: u64, k: u64) -> Stress {
    let kind = KINDS[(k as usize) % KINDS.len()];
    let round = (k as usize) / KINDS.len();
    let mut rng = Rng::for_case(seed, "stress", k);
    // round 0: the largest size inside the bounds; later rounds: random sizes
    let scale = |max: usize, rng: &mut Rng| if round == 0 { max } else { rng.range(max / 20, max) };
    let _ = tier;
    let base = "start S\nterminal Tok { $A: () }\n";
    match kind {
        "long-path" => {
            let want = scale(21_000, &mut rng);
            let (text, n) = fit(|n| format!("start S\nstruct S\nterminal Tok {{ $A: a{} }}\n", "::a".repeat(n)), want);
            Stress { class: kind, longest_list: n + 1, text }
        }
        "long-type-argument-list" => {
            let want = scale(32_000, &mut rng);
            let (text, n) = fit(|n| format!("start S\nstruct S\nterminal Tok {{ $A: a<b{}> }}\n", ",b".repeat(n)), want);
            Stress { class: kind, longest_list: n + 1, text }
        }
        "many-attributes" => {
            let want = scale(21_800, &mut rng);
            let (text, n) = fit(|n| format!("{}struct S\n{base}", "#[]".repeat(n)), want);
            Stress { class: kind, longest_list: n, text }
        }
        "many-enum-variants" => {
            let want = scale(12_000, &mut rng);
            // distinct names and distinct symbol sequences are not required to get through the front end
            let (text, n) = fit(|n| format!("enum S {{{}}}\n{base}", (0..n).map(|i| format!(" V{i}")).collect::<String>()), want);
            Stress { class: kind, longest_list: n, text }
        }
        "long-tuple-fieldset" => {
            let want = scale(32_700, &mut rng);
            let (text, n) = fit(|n| format!("struct S({})\n{base}", "S ".repeat(n)), want);
            Stress { class: kind, longest_list: n, text }
        }
        "long-named-fieldset" => {
            let want = scale(16_300, &mut rng);
            let (text, n) = fit(|n| format!("struct S {{{}}}\n{base}", "a:S ".repeat(n)), want);
            Stress { class: kind, longest_list: n, text }
        }
        "many-terminal-variants" => {
            let want = scale(7_000, &mut rng);
            let (text, n) = fit(|n| format!("start S\nstruct S\nterminal Tok {{{}}}\n", (0..n).map(|i| format!("$A{i}:() ")).collect::<String>()), want);
            Stress { class: kind, longest_list: n, text }
        }
        "many-enum-variants-dense" => {
            let want = scale(32_700, &mut rng);
            let (text, n) = fit(|n| format!("enum S {{{}}}\n{base}", " A".repeat(n)), want);
            Stress { class: kind, longest_list: n, text }
        }
        "many-terminal-variants-dense" => {
            let want = scale(13_000, &mut rng);
            let (text, n) = fit(|n| format!("start S\nstruct S\nterminal Tok {{{}}}\n", "$A:A ".repeat(n)), want);
            Stress { class: kind, longest_list: n, text }
        }
        "long-path-then-syntax-error" => {
            let want = scale(21_000, &mut rng);
            let (text, n) = fit(|n| format!("start S\nstruct S\nterminal Tok {{ $A: a{} :: }}\n", "::a".repeat(n)), want);
            Stress { class: kind, longest_list: n + 1, text }
        }
        "many-declarations" => {
            let n = scale(1_998, &mut rng);
            let mut s = String::from(base);
            s.push_str("struct S\n");
            for i in 0..n.saturating_sub(3) {
                s.push_str(&format!("struct S{i}\n"));
            }
            Stress { class: kind, longest_list: n, text: s }
        }
        "deep-type-nesting" => {
            let n = scale(256, &mut rng);
            let text = format!("start S\nstruct S\nterminal Tok {{ $A: {}a{} }}\n", "a<".repeat(n), ">".repeat(n));
            Stress { class: kind, longest_list: 1, text }
        }
        "long-identifier" => {
            let n = scale(30_000, &mut rng);
            let id = "A".repeat(n);
            Stress { class: kind, longest_list: 1, text: format!("start {id}\nstruct {id}\nterminal Tok {{}}\n") }
        }
        "long-comment" => {
            let n = scale(20_000, &mut rng);
            Stress { class: kind, longest_list: 1, text: format!("// {}\n{}{base}struct S\n", "é".repeat(n), "\n".repeat(n)) }
        }
        "long-chain-grammar" => {
            // (kiki's construction is slow on long chains: 600 links need 70 s optimised, 690 s unoptimised)
            let n = scale(500, &mut rng);
            let mut s = String::from("start N0\nterminal Tok { $A: () $B: () }\n");
            for i in 0..n {
                s.push_str(&format!("enum N{i} {{ X($A N{}) Y($B N{} $B) }}\n", i + 1, i + 1));
            }
            s.push_str(&format!("struct N{n}($A)\n"));
            Stress { class: kind, longest_list: n, text: s }
        }
        "many-terminals-expression-grammar" => {
            let n = scale(40, &mut rng);
            let mut s = String::from("start E0\n");
            s.push_str("terminal Tok {");
            for i in 0..n {
                s.push_str(&format!(" $Op{i}: ()"));
            }
            s.push_str(" $Num: () $L: () $R: () }\n");
            for i in 0..n {
                s.push_str(&format!("enum E{i} {{ Bin(E{i} $Op{i} E{}) Up(E{}) }}\n", i + 1, i + 1));
            }
            s.push_str(&format!("enum E{n} {{ Num($Num) Paren($L E0 $R) }}\n"));
            Stress { class: kind, longest_list: n, text: s }
        }
        "wide-alternatives" => {
            // kiki's construction is polynomial of high degree here (measured: n=40 2 s, n=80 82 s in the
            // optimised build); the size is chosen so that the pinned tree needs seconds, not minutes.
            let n = scale(44, &mut rng);
            let mut s = String::from("start S\nterminal Tok {");
            for i in 0..n {
                s.push_str(&format!(" $T{i}: ()"));
            }
            s.push_str(" }\nenum S {");
            for i in 0..n {
                s.push_str(&format!(" V{i}($T{i} S $T{})", (i + 1) % n));
            }
            s.push_str(" Nil }\n");
            Stress { class: kind, longest_list: n, text: s }
        }
        "long-rhs-late-lookahead" => {
            // a chain of thousands of states exists before a new lookahead for its head arrives
            // (the recursion through Payload adds $B to the lookaheads of the first item late)
            let want = scale(21_000, &mut rng);
            let (text, n) = fit(
                |n| format!("start Packet\nstruct Packet({}Payload _: $B)\nenum Payload {{ Nothing Nested(Packet) }}\nterminal Tok {{ $T: () $B: () }}\n", "$T ".repeat(n)),
                want,
            );
            Stress { class: kind, longest_list: n, text }
        }
        "chain-grammar-with-back-edge" => {
            let n = scale(1_900, &mut rng);
            let mut s = String::from("start N0\nterminal Tok { $A: () $B: () }\n");
            for i in 0..n {
                s.push_str(&format!("struct N{i}($A N{})\n", i + 1));
            }
            s.push_str(&format!("enum N{n} {{ End($B) Back($A N0 $B) }}\n"));
            Stress { class: kind, longest_list: n, text: s }
        }
        "long-rhs-left-recursive" => {
            let want = scale(21_000, &mut rng);
            let (text, n) = fit(|n| format!("start L\nenum L {{ Base({}) Rec(L $B) Wrap($B L $T) }}\nterminal Tok {{ $T: () $B: () }}\n", "$T ".repeat(n)), want);
            Stress { class: kind, longest_list: n, text }
        }
        "many-comment-lines" => {
            // as many consecutive comment lines as fit (a licence banner, a commented-out block)
            let n = scale(21_000, &mut rng);
            let unit = if round == 0 { "//\n" } else { *rng.pick(&["//\n", "//\r\n", " //c\n", "//\n\n"]) };
            let (text, n) = fit(|n| format!("{}{base}struct S\n", unit.repeat(n)), n);
            Stress { class: kind, longest_list: n, text }
        }
        "many-start-statements" => {
            let n = scale(1_990, &mut rng);
            Stress { class: kind, longest_list: n, text: format!("{}struct S\nterminal Tok {{}}\n", "start S\n".repeat(n)) }
        }
        "long-attribute" => {
            let n = scale(20_000, &mut rng);
            Stress { class: kind, longest_list: 1, text: format!("#[doc = \"{}\"]\nstruct S\n{base}", "é".repeat(n)) }
        }
        "deeply-bracketed-attribute" => {
            let n = scale(30_000, &mut rng);
            Stress { class: kind, longest_list: 1, text: format!("#[{}{}]\nstruct S\n{base}", "(".repeat(n), ")".repeat(n)) }
        }
        _ => {
            let n = scale(30_000, &mut rng);
            Stress { class: "unterminated-long-input", longest_list: n, text: format!("start S\nstruct S(\n{}", "$A ".repeat(n).chars().take(MAX_BYTES - 20).collect::<String>()) }
        }
    }
}

pub fn describe(tier: Tier, seed: u64, k: u64) -> Value {
    let s = stress_case(tier, seed, k);
    json!({"class": s.class, "longest_list": s.longest_list, "bytes": s.text.len(), "text_head": crate::util::truncate(&s.text, 300)})
}

/// `kv oneshot <file>`: run generate once on the file's text, no catch_unwind.
pub fn oneshot_main(path: &str) -> i32 {
    let text = std::fs::read_to_string(path).expect("read input");
    kiki::verif_hooks::reset(u64::MAX);
    let r = kiki::generate(&text);
    let t = kiki::verif_hooks::ticks();
    match r {
        Ok(s) => println!("OUT Ok {} {:?}", s.0.len(), t),
        Err(e) => println!("OUT Err:{} 0 {:?}", crate::kside::err_kind(&e), t),
    }
    0
}

pub fn run_stress_case(w: &mut Worker, k: u64) {
    let s = stress_case(w.tier, w.seed, k);
    let path = w.scratch.join(format!("stress-{}.kiki", w.shard));
    if std::fs::write(&path, &s.text).is_err() {
        w.inconclusive("cannot write stress input");
        return;
    }
    let root = crate::coord::verif_root();
    let release = std::env::current_exe().expect("current_exe");
    let dev = crate::coord::dev_worker_exe(&root);
    let mut profiles: Vec<(&str, std::path::PathBuf)> = vec![("release", release)];
    if dev.exists() {
        profiles.push(("dev-profile", dev));
    } else {
        w.inconclusive("dev-profile worker binary missing (run setup_cmd)");
    }
    for (pname, exe) in profiles {
        let mut cmd = Command::new(&exe);
        cmd.arg("oneshot").arg(&path).stdin(Stdio::null()).stdout(Stdio::piped()).stderr(Stdio::piped());
        let cpu = 600;
        crate::util::limit_cpu_and_memory(&mut cmd, cpu, 8 << 30);
        let t0 = std::time::Instant::now();
        let out = match cmd.output() {
            Ok(o) => o,
            Err(e) => {
                w.inconclusive(&format!("cannot run {}: {e}", exe.display()));
                continue;
            }
        };
        w.eval();
        w.count(&format!("stress:{}:{pname}", s.class));
        w.max("stress-max-wall-ms", t0.elapsed().as_millis() as u64);
        w.max(&format!("stress-wall-ms:{}:{pname}", s.class), t0.elapsed().as_millis() as u64);
        w.nontrivial(crate::rng::hash_str(&s.text) ^ pname.len() as u64);
        let stdout = String::from_utf8_lossy(&out.stdout).to_string();
        let stderr = String::from_utf8_lossy(&out.stderr).to_string();
        use std::os::unix::process::ExitStatusExt;
        let witness = json!({"class": s.class, "longest_list": s.longest_list, "bytes": s.text.len(), "profile": pname,
            "text_head": crate::util::truncate(&s.text, 200), "stress_case": k, "stderr_tail": crate::util::truncate(&stderr, 400)});
        let list_class = if s.longest_list > 10_000 { "list-longer-than-10000".to_string() } else { s.class.to_string() };
        if let Some(line) = stdout.lines().find(|l| l.starts_with("OUT ")) {
            let class = line.split_whitespace().nth(1).unwrap_or("?");
            w.count(&format!("stress-outcome:{class}"));
            if w.wants_sample(s.class) {
                w.sample(s.class, json!({"class": s.class, "bytes": s.text.len(), "longest_list": s.longest_list, "profile": pname, "result": line, "wall_ms": t0.elapsed().as_millis() as u64}));
            }
        } else if stderr.contains("overflowed its stack") || stderr.contains("stack overflow") {
            w.violation(&format!("abort:stack-overflow:{pname}:{list_class}"), "generate aborted with a stack overflow on an input inside the size bounds", witness);
        } else if out.status.signal() == Some(24) || out.status.signal() == Some(9) {
            w.violation(&format!("abort:cpu-budget:{pname}:{}", s.class), &format!("generate did not return within {cpu} CPU-seconds"), witness);
        } else if stderr.contains("panicked at") {
            let msg: String = stderr.lines().skip_while(|l| !l.contains("panicked at")).take(2).collect::<Vec<_>>().join(" ");
            let site: String = msg.split("panicked at ").nth(1).unwrap_or("").split(':').next().unwrap_or("").to_string();
            let site = site.rsplit("kiki/src/").next().map(|x| format!("kiki/src/{x}")).unwrap_or(site);
            w.violation(&format!("panic:{site}:{}", s.class), &format!("generate panicked: {}", crate::util::truncate(&msg, 300)), witness);
        } else if stderr.contains("memory allocation") {
            w.violation(&format!("abort:alloc-failure:{pname}:{}", s.class), "allocation failure under the 8 GiB address-space limit", witness);
        } else {
            w.violation(&format!("abort:{:?}:{pname}:{}", out.status.signal().map(|s| s.to_string()).unwrap_or_else(|| format!("exit{:?}", out.status.code())), s.class), "generate died", witness);
        }
    }
    let _ = std::fs::remove_file(&path);
}
