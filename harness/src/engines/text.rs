//! Engine `text` (C12, C13, C14, C15, C16): properties of the emitted text
//! and of generate as a function of the source text.

use crate::coord::{Agg, Engine, Tier, Worker};
use crate::gtext;
use crate::kside::{self, GenOutcome};
use crate::model::*;
use crate::rlex;
use crate::rng::{self, Rng};
use crate::sha;
use crate::shape;
use crate::skim::{self, ItemKind, Tok};
use kiki::KikiErr;
use serde_json::{json, Map, Value};
use std::collections::BTreeSet;

pub struct Text;

const BATCH: u64 = 16;

fn n_batches(prop: &str, tier: Tier) -> u64 {
    match (prop, tier) {
        ("C12", Tier::Quick) => 2_500,
        ("C12", Tier::Thorough) => 500_000,
        ("C13", Tier::Quick) => 2_500,
        ("C13", Tier::Thorough) => 300_000,
        ("C14", Tier::Quick) => 400,
        ("C14", Tier::Thorough) => 60_000,
        ("C15", Tier::Quick) => 6_000,
        ("C15", Tier::Thorough) => 1_500_000,
        ("C16", Tier::Quick) => 2_500,
        ("C16", Tier::Thorough) => 160_000,
        _ => 10,
    }
}

// ---------------------------------------------------------------------------
// generators

fn small_model(rng: &mut Rng) -> Model {
    let (_, cfg, force) = crate::gen::small_grammar(rng);
    let mut m = model_from_cfg(&cfg, &force);
    assign_random_shapes(&mut m, rng, 0.6);
    m.start_pos = rng.below(m.nts.len() + 1);
    m.term_pos = rng.below(m.nts.len() + 1);
    // (nothing emitted for these models is compiled: every spelling of a name is in the domain)
    match rng.below(12) {
        0 => prelude_names(&mut m, rng),
        1 | 2 => shuffle_names(&mut m, rng),
        _ => {}
    }
    m
}

/// A hostile single-line attribute with balanced brackets carrying a unique marker.
/// Attributes as users write them: derive lists, cfg_attr, doc strings, serde / repr / allow ..., with
/// lengths crossing the widths formatters care about (80, 100, 120 columns).
pub fn realistic_attr(rng: &mut Rng, marker: &str) -> String {
    const TRAITS: &[&str] = &["Clone", "Debug", "PartialEq", "Eq", "PartialOrd", "Ord", "Hash", "Default", "Copy", "serde::Serialize", "serde::Deserialize", "a::b::C", "X"];
    let target = *rng.pick(&[10usize, 40, 70, 79, 80, 81, 99, 100, 101, 119, 120, 121, 200, 400]);
    match rng.below(6) {
        0 | 1 => {
            // a clean derive list; the marker is one of the paths
            let mut paths: Vec<String> = vec![marker.to_string()];
            while paths.join(", ").len() + 11 < target {
                paths.push(rng.pick_str(TRAITS).to_string());
            }
            rng.shuffle(&mut paths);
            let sep = rng.pick_str(&[", ", ",", ", ", " , "]);
            format!("#[derive({}{})]", paths.join(sep), rng.pick_str(&["", "", ","]))
        }
        2 => format!("#[doc = \"{marker} {}\"]", "lorem ipsum ".repeat(target / 12)),
        3 => format!("#[cfg_attr(feature = \"{marker}\", derive({}))]", (0..target / 12 + 1).map(|_| rng.pick_str(TRAITS)).collect::<Vec<_>>().join(", ")),
        4 => format!("#[serde(rename_all = \"{marker}\", tag = \"{}\")]", "t".repeat(target / 2)),
        _ => format!("#[allow({marker}, {})]", (0..target / 14 + 1).map(|i| format!("clippy::lint_{i}")).collect::<Vec<_>>().join(", ")),
    }
}

pub fn hostile_attr(rng: &mut Rng, marker: &str) -> String {
    const PLAIN: &[&str] = &[
        "a", " ", "=", "\"", "'", "//", "#", "$", ",", "\t", "\r", "\u{a0}", "\u{2028}", "é", "中", "𝄞", "\\", "/", ":", ";", "!", "#[", "derive", "Debug", "<", ">", "_", "0", "\u{feff}", "|",
    ];
    fn body(rng: &mut Rng, depth: usize, out: &mut String) {
        let n = rng.below(6);
        for _ in 0..n {
            if depth < 5 && rng.chance(0.25) {
                let (o, c) = *rng.pick(&[('(', ')'), ('[', ']'), ('{', '}')]);
                out.push(o);
                body(rng, depth + 1, out);
                out.push(c);
            } else if rng.chance(0.06) {
                // a word of the dictionary harvested from kiki's own sources: a format placeholder
                // (`{node_enum_name}`, balanced, hence legal attribute text) or an identifier
                let d = gtext::repo_dictionary();
                if !d.placeholders.is_empty() && rng.chance(0.7) {
                    let ph = rng.pick(&d.placeholders).clone();
                    match rng.below(5) {
                        0 => out.push_str(&format!("{{{ph}}}")),
                        1 => out.push_str(&ph.replace('}', ":?}")),
                        _ => out.push_str(&ph),
                    }
                } else if !d.camel.is_empty() {
                    let w: &String = rng.pick(&d.camel);
                    out.push_str(w);
                }
            } else {
                let p = rng.pick_str(PLAIN);
                if p == "#[" {
                    // keep brackets balanced
                    out.push_str("#[");
                    body(rng, depth + 1, out);
                    out.push(']');
                } else {
                    out.push_str(p);
                }
            }
        }
    }
    if marker.is_empty() {
        return "#[]".to_string();
    }
    let mut s = String::from("#[");
    if rng.chance(0.5) {
        body(rng, 0, &mut s);
    }
    s.push_str(marker);
    body(rng, 0, &mut s);
    if rng.chance(0.06) {
        // deep nesting: depth counters of every plausible width must cope
        let d = *rng.pick(&[100usize, 126, 127, 128, 254, 255, 256, 257, 300, 1000, 32767, 32768, 65535, 65536, 70000]);
        let d = if d > 2000 && !rng.chance(0.15) { 255 + rng.below(50) as usize } else { d };
        let kinds = [('(', ')'), ('[', ']'), ('{', '}')];
        let mixed = rng.chance(0.5);
        let k0 = rng.below(3) as usize;
        let mut closers = Vec::with_capacity(d);
        for i in 0..d {
            let (o, c) = kinds[if mixed { (k0 + i * 7 / 3) % 3 } else { k0 }];
            s.push(o);
            closers.push(c);
        }
        s.push_str(rng.pick_str(&["", "x", "中", " "]));
        while let Some(c) = closers.pop() {
            s.push(c);
        }
        body(rng, 0, &mut s);
    }
    if rng.chance(0.3) {
        // a multi-byte character directly before the closing bracket
        s.push_str(rng.pick_str(&["é", "中", "𝄞", "\u{a0}"]));
    }
    s.push(']');
    s
}

/// Render a model, writing attributes with random separators after each of them.
fn render_with_attr_separators(m: &Model, rng: &mut Rng) -> String {
    const AFTER: &[&str] = &["\n", " ", "", " // c\n", "\t", "\r\n", "\u{2003}", "//\n"];
    let mut plain = m.clone();
    for nt in &mut plain.nts {
        nt.attrs.clear();
    }
    plain.term_attrs.clear();
    let attrs_src = |attrs: &[String], rng: &mut Rng| -> String {
        let mut s = String::new();
        for a in attrs {
            s.push_str(a);
            s.push_str(rng.pick_str(AFTER));
        }
        s
    };
    let mut s = String::new();
    for i in 0..=m.nts.len() {
        if m.start_pos == i {
            s.push_str(&format!("start {}\n", m.nts[m.start].name));
        }
        if m.term_pos == i {
            s.push_str(&attrs_src(&m.term_attrs, rng));
            s.push_str(&plain.terminal_src());
        }
        if i < m.nts.len() {
            s.push_str(&attrs_src(&m.nts[i].attrs, rng));
            s.push_str(&plain.nt_src(i));
        }
    }
    s
}

pub fn random_type(rng: &mut Rng, depth: usize) -> TypeExpr {
    const SEGS: &[&str] = &[
        "a", "B", "std", "crate", "Vec", "x1", "_y", "Option", "self_", "T", "u8", "__",
        // identifiers that *contain* keywords, primitive names, the emitter's vocabulary or the
        // default names of the grammar's own symbols (textual substitution instead of token-wise copying)
        "SelfRef", "ItSelf", "MySelf", "selfie", "Selfish", "crates", "Boxed", "UnBox", "NodeKind", "ANode", "TokKind", "MyTok", "Tok", "N0", "T0", "N1x", "XT0", "StateItem",
        "EofMark", "Error", "Result", "usize_", "str", "String", "dyn_", "impl_", "Fn", "superb", "Type", "Quasiterminal", "Terminal",
    ];
    let path = |rng: &mut Rng| -> Vec<String> { (0..*rng.pick(&[1usize, 1, 1, 2, 2, 3, 4, 6])).map(|_| rng.pick_str(SEGS).to_string()).collect() };
    match rng.below(10) {
        0..=1 => TypeExpr::Unit,
        2..=5 => TypeExpr::Path(path(rng)),
        _ => {
            if depth >= 8 {
                return TypeExpr::Path(path(rng));
            }
            let n = *rng.pick(&[1usize, 1, 2, 2, 3, 4]);
            TypeExpr::Generic(path(rng), (0..n).map(|_| random_type(rng, depth + 1)).collect())
        }
    }
}

/// Write a type with random layout / comments between its tokens.
fn type_src_with_layout(t: &TypeExpr, rng: &mut Rng) -> String {
    let toks = shape::type_tokens(t);
    if rng.chance(0.4) {
        return t.text() + "\n";
    }
    let (s, _) = gtext::join_tokens_core(&toks, rng, &["", "", " ", "  ", "\n", " // c\n", "\t", "\u{a0}"], "");
    s + "\n"
}

/// A source of any class: accepted, conflicting, every kind of error.
/// The first lines of a module emitted just now (its comment header), and the whole module.
fn real_emitted(rng: &mut Rng) -> (String, String) {
    thread_local! { static REAL: Vec<String> = {
        ["start S\nstruct S\nterminal T {}\n", "start E\nenum E { A($X E) B }\nterminal K { $X: u8 }\n"]
            .iter()
            .filter_map(|src| match kside::generate(src, 1_000_000).0 {
                GenOutcome::Ok(t) => Some(t),
                _ => None,
            })
            .collect()
    }; }
    REAL.with(|r| {
        if r.is_empty() {
            return (String::new(), String::new());
        }
        let t = rng.pick(r).clone();
        let header: String = t.split_inclusive('\n').take_while(|l| l.starts_with("//")).collect();
        (header, t)
    })
}

fn any_source(rng: &mut Rng, seed: u64, n: u64) -> (String, String) {
    match rng.below(16) {
        15 if rng.chance(0.3) => {
            // a grammar with hundreds of states (work that a generator might split over threads)
            let v = *rng.pick(&[1usize, 4, 5, 7]);
            let (cfg, force) = loop {
                let (c, f) = crate::gen::big_cfg_variant(rng, 200, v);
                if c.rules.iter().map(|r| r.rhs.len()).sum::<usize>() <= 1400 && c.nn <= 140 {
                    break (c, f);
                }
            };
            let mut m = model_from_cfg(&cfg, &force);
            assign_random_shapes(&mut m, rng, 0.5);
            ("big-grammar".into(), m.render())
        }
        15 => {
            // the generator's own output fed back: its comment header (with the `// @sha256 <digest>` line)
            // as the leading comment of a grammar, or the emitted Rust text itself as "grammar"
            let (header, module) = real_emitted(rng);
            let src = small_model(rng).render();
            match rng.below(4) {
                0 => ("emitted-module-as-source".into(), module),
                1 => ("emitted-header-then-grammar".into(), format!("{header}{src}")),
                2 => ("emitted-header-then-grammar".into(), format!("{}{src}", header.replace('\n', "\r\n"))),
                _ => {
                    let mut lines: Vec<&str> = header.split_inclusive('\n').collect();
                    rng.shuffle(&mut lines);
                    ("emitted-header-then-grammar".into(), format!("{}{src}", lines.concat()))
                }
            }
        }
        13..=14 => {
            // a file that stops in the middle (of a token, an attribute, a comment ...): calls that
            // fail at different depths of the pipeline, at the very end of the text
            let src = small_model(rng).render();
            let cuts: Vec<usize> = src.char_indices().map(|(i, _)| i).collect();
            let cut = if cuts.is_empty() { 0 } else { *rng.pick(&cuts) };
            let tail = rng.pick_str(&["", "", "$", "/", "#", "#[", "#[a(", "$start", "$_", ":", "<", " //", "$enum"]);
            ("truncated-file".into(), format!("{}{tail}", &src[..cut]))
        }
        10..=12 => {
            // several simultaneous violations of one kind (1-2 kinds per file)
            let m = small_model(rng);
            let src = m.render();
            match crate::rkiki::reference_ast(&src) {
                Ok(mut items) => {
                    let mut tags = vec![gtext::inject_many(&mut items, rng)];
                    if rng.chance(0.3) {
                        tags.push(gtext::inject_many(&mut items, rng));
                    }
                    (format!("multi:{}", tags[0]), gtext::render_items(&items))
                }
                Err(_) => ("grammar".into(), src),
            }
        }
        0..=3 => {
            let m = small_model(rng);
            ("grammar".into(), m.render())
        }
        4 => {
            let ex = crate::rkiki::repo_example_sources();
            if ex.is_empty() {
                ("grammar".into(), small_model(rng).render())
            } else {
                ("repo-example".into(), rng.pick(&ex).1.clone())
            }
        }
        5..=6 => super::front::input_for("C10", Tier::Quick, seed ^ 0x51, n / 64, n % 64),
        7..=8 => super::front::input_for("C09", Tier::Quick, seed ^ 0x52, n / 64, n % 64),
        _ => super::front::input_for("C08", Tier::Quick, seed ^ 0x53, 100 + n / 64, n % 64),
    }
}

// ---------------------------------------------------------------------------
// C15 model

/// What get_grammar_hash must return, straight from the property statement.
pub fn model_grammar_hash(text: &str) -> Option<&str> {
    const PREFIX: &str = "// @sha256 ";
    for line in text.lines() {
        if !line.starts_with("//") {
            return None;
        }
        if let Some(rest) = line.strip_prefix(PREFIX) {
            return Some(rest);
        }
    }
    None
}

fn header_like_text(rng: &mut Rng) -> String {
    const FRAG: &[&str] = &[
        "//", "// @sha256 ", "//@sha256 ", "// @sha256", "// @sha256 // @sha256 ", " // @sha256 ", "abc", "0123abcdef", "\n", "\r\n", "\r", " ", "// x", "#![allow(dead_code)]", "/", "é", "\u{2028}", "// @sha256 deadbeef", "\t", "// @SHA256 ", "/// @sha256 ", "",
        "// @sha256 abc  ", "// @sha256 abc\t", "// @sha2560", "//! x", "// @sha256 abc\r", "// @sha256  two", "//\t@sha256 x", "// @sha256 é", "\u{feff}// @sha256 x", "// @sha256", "//", "// ",
    ];
    if rng.chance(0.2) {
        // a REAL header (the first lines of a module emitted just now) with per-line terminators
        // varied and 0-2 single-character edits anywhere in it
        thread_local! { static REAL: String = {
            match kside::generate("start S\nstruct S\nterminal T {}\n", 1_000_000).0 {
                GenOutcome::Ok(t) => t.split_inclusive('\n').take(9).collect(),
                _ => String::new(),
            }
        }; }
        let real = REAL.with(|r| r.clone());
        if !real.is_empty() {
            let mut out = String::new();
            let crlf_mode = rng.below(4);
            for line in real.split_inclusive('\n') {
                let body = line.trim_end_matches('\n');
                out.push_str(body);
                let crlf = match crlf_mode {
                    0 => false,
                    1 => true,
                    2 => body.contains("@sha256"),
                    _ => rng.chance(0.3),
                };
                out.push_str(if crlf { "\r\n" } else { "\n" });
            }
            for _ in 0..*rng.pick(&[0usize, 0, 1, 1, 2]) {
                let cuts: Vec<usize> = out.char_indices().map(|(i, _)| i).collect();
                let at = *rng.pick(&cuts);
                match rng.below(3) {
                    0 => out.insert_str(at, rng.pick_str(&["\r", "\n", " ", "/", "@", "a", "\t", "é", "// @sha256 q\n", "\u{feff}"])),
                    1 => {
                        let c = out[at..].chars().next().unwrap();
                        out.replace_range(at..at + c.len_utf8(), "");
                    }
                    _ => {
                        let c = out[at..].chars().next().unwrap();
                        out.replace_range(at..at + c.len_utf8(), rng.pick_str(&["\r", " ", "x", "/"]));
                    }
                }
            }
            if rng.chance(0.2) {
                out.truncate(rng.below(out.len() + 1));
                while !out.is_char_boundary(out.len()) {
                    out.pop();
                }
            }
            return out;
        }
    }
    let mut s = String::new();
    if rng.chance(0.12) {
        // a long banner in front: the hash line far down the comment block (line counts and byte
        // offsets on thresholds), or very long lines
        let k = *rng.pick(&[15usize, 16, 31, 32, 62, 63, 64, 65, 66, 99, 100, 127, 128, 129, 255, 256, 257, 1000, 4096, 65_536]);
        let line = rng.pick_str(&["//", "// x", "//\t", "// @sha25", "//@sha256 q", "// é", "////", "//!", "// @sha256"]);
        let eol = rng.pick_str(&["\n", "\n", "\r\n"]);
        for _ in 0..k {
            s.push_str(line);
            s.push_str(eol);
        }
    } else if rng.chance(0.04) {
        let k = *rng.pick(&[63usize, 64, 255, 256, 4095, 4096, 65_535, 65_536, 100_000]);
        s.push_str("//");
        s.push_str(&rng.pick_str(&["x", "é", " ", "/"]).repeat(k));
        s.push('\n');
    }
    for _ in 0..rng.range(1, 10) {
        s.push_str(rng.pick_str(FRAG));
        if rng.chance(0.5) {
            s.push('\n');
        }
    }
    if rng.chance(0.03) {
        // a very long remainder after the prefix
        let k = *rng.pick(&[64usize, 65, 128, 256, 4096, 65_536]);
        s = format!("// @sha256 {}\n{s}", rng.pick_str(&["a", "0", "é", " "]).repeat(k));
    }
    s
}

// ---------------------------------------------------------------------------
// C16 helpers

const LAYOUT_SEPS: &[&str] = &[
    "", "", " ", "\n", "  ", "\t", "\r\n", "\u{a0}", "\u{2003}", "\u{2028}", "\u{85}", " // comment\n", "//\n", "// é 中 𝄞 #[ $ / struct \" \n", "\n\n\n", " //x\r\n", "\u{3000}",
    "\u{b}", "\u{c}", "\u{1680}", "\u{2000}", "\u{200a}", "\u{2029}", "\u{202f}", "\u{205f}", "//c\n", "//\r\n", "// a // b\n",
    "// @sha256 e3b0c44298fc1c149afbf4c8996fb92427ae41e4649b934ca495991b7852b855\n", "// This code was generated by Kiki.\n", "// @sha256 \n",
];

struct Relayout {
    text: String,
    /// (old start, old end, new start) per token
    map: Vec<(usize, usize, usize)>,
    old_len: usize,
    new_len: usize,
    /// Length of the re-laid-out part in old and new text (for lexically invalid sources).
    old_prefix_end: usize,
    new_prefix_end: usize,
}

fn relayout(src: &str, rng: &mut Rng) -> Option<Relayout> {
    let (toks, err) = rlex::lex_partial(src);
    // for a lexically invalid source only the text before the offending lexeme is re-laid-out
    let old_prefix_end = if err.is_some() { toks.last().map(|t| t.end).unwrap_or(0) } else { src.len() };
    let rest = &src[old_prefix_end..];
    let texts: Vec<String> = toks.iter().map(|t| src[t.start..t.end].to_string()).collect();
    let one_line = rng.chance(0.1);
    let seps: Vec<&str> = if one_line { LAYOUT_SEPS.iter().copied().filter(|s| !s.contains('\n')).collect() } else { LAYOUT_SEPS.to_vec() };
    let (mut text, starts) = if texts.is_empty() { (String::new(), vec![]) } else { gtext::join_tokens(&texts, rng, &seps) };
    if !rest.is_empty() {
        // drop whatever join_tokens appended after the last token; the untouched rest follows directly
        if let (Some(s), Some(t)) = (starts.last(), texts.last()) {
            text.truncate(s + t.len());
        } else {
            text.clear();
        }
    }
    let new_prefix_end = text.len();
    text.push_str(rest);
    // validity: same kinds and texts
    if rest.is_empty() {
        let again = rlex::lex(&text).ok()?;
        if again.len() != toks.len() || again.iter().zip(&toks).any(|(a, b)| a.kind != b.kind || text[a.start..a.end] != src[b.start..b.end]) {
            return None;
        }
    }
    let map = toks.iter().zip(&starts).map(|(t, s)| (t.start, t.end, *s)).collect();
    Some(Relayout {
        new_len: text.len(),
        text,
        map,
        old_len: src.len(),
        old_prefix_end,
        new_prefix_end,
    })
}

/// PAGE GEOMETRY: the same tokens, each placed at a chosen position relative to a power-of-two grid of the
/// text (starting exactly on a multiple of P, one byte before / after it, or ending on it), with at least
/// one or two whole pages of PURE ASCII blanks (space, TAB, LF, CR - no comments, no Unicode) in every
/// gap.  A scanner that skips blanks a page / a word / a cache line at a time meets every token at every
/// boundary.  Only for lexically valid sources.
fn relayout_aligned(src: &str, rng: &mut Rng) -> Option<Relayout> {
    let toks = rlex::lex(src).ok()?;
    if toks.is_empty() || toks.len() > 400 {
        return None;
    }
    let p = *rng.pick(&[8usize, 16, 64, 256, 512, 1024, 4096, 4096, 4096, 8192, 65_536]);
    if p * toks.len() > 6_000_000 {
        return None;
    }
    let blank = rng.pick_str(&[" ", " ", "\n", "\t", "\r\n", " \n", "\r"]);
    let pages = rng.range(1, 2);
    let mode = rng.below(5);
    let mut text = String::new();
    let mut starts = vec![];
    for (i, t) in toks.iter().enumerate() {
        let tok = &src[t.start..t.end];
        // where this token starts, modulo p
        let want = match if mode == 4 { rng.below(4) } else { mode } {
            0 => 0,
            1 => 1,
            2 => p - 1,
            _ => (p - tok.len() % p) % p,
        };
        // at least `pages` whole pages of blanks (not in front of the very first token half of the time)
        let min_gap = if i == 0 && rng.chance(0.5) { 0 } else { pages * p };
        let mut target = text.len() + min_gap;
        while target % p != want {
            target += 1;
        }
        while text.len() < target {
            // (a two-byte blank unit may overshoot by one: fill the last byte with a space)
            if text.len() + blank.len() <= target {
                text.push_str(blank);
            } else {
                text.push(' ');
            }
        }
        starts.push(text.len());
        text.push_str(tok);
    }
    if rng.chance(0.7) {
        let tail = pages * p + rng.below(3);
        text.push_str(&" ".repeat(tail));
    }
    // validity: same kinds and texts
    let again = rlex::lex(&text).ok()?;
    if again.len() != toks.len() || again.iter().zip(&toks).any(|(a, b)| a.kind != b.kind || text[a.start..a.end] != src[b.start..b.end]) {
        return None;
    }
    let map = toks.iter().zip(&starts).map(|(t, s)| (t.start, t.end, *s)).collect();
    Some(Relayout { new_len: text.len(), text, map, old_len: src.len(), old_prefix_end: src.len(), new_prefix_end: 0 })
}

impl Relayout {
    fn map_pos(&self, p: usize) -> Option<usize> {
        if p >= self.old_prefix_end && self.old_prefix_end < self.old_len {
            // inside the untouched rest of a lexically invalid source
            return Some(self.new_prefix_end + (p - self.old_prefix_end));
        }
        if p == self.old_len {
            return Some(self.new_len);
        }
        for (s, e, ns) in &self.map {
            if *s <= p && p < *e {
                return Some(ns + (p - s));
            }
        }
        None
    }
}

/// Rewrite every `ByteIndex(n)` in a Debug rendering through `f`.
fn map_byte_indices(rendered: &str, f: impl Fn(usize) -> Option<usize>) -> Result<String, usize> {
    let mut out = String::new();
    let mut rest = rendered;
    const KEY: &str = "ByteIndex(";
    while let Some(i) = rest.find(KEY) {
        out.push_str(&rest[..i + KEY.len()]);
        rest = &rest[i + KEY.len()..];
        let j = rest.find(')').ok_or(0usize)?;
        let n: usize = rest[..j].trim().parse().map_err(|_| 0usize)?;
        match f(n) {
            Some(m) => out.push_str(&m.to_string()),
            None => return Err(n),
        }
        rest = &rest[j..];
    }
    out.push_str(rest);
    Ok(out)
}

fn strip_hash_line(text: &str) -> String {
    text.split('\n').filter(|l| !l.starts_with("// @sha256 ")).collect::<Vec<_>>().join("\n")
}

fn render_outcome_for_layout(out: &GenOutcome) -> String {
    match out {
        GenOutcome::Ok(t) => format!("Ok\n{}", strip_hash_line(t)),
        GenOutcome::Err(e) => format!("{e:?}"),
        GenOutcome::Panic(p) => format!("PANIC {}", p.message),
    }
}

// ---------------------------------------------------------------------------
// C14 helpers

fn digest_of(out: &GenOutcome) -> u64 {
    match out {
        GenOutcome::Ok(t) => rng::hash_str(t) ^ 1,
        GenOutcome::Err(e) => rng::hash_str(&format!("{e:?}")) ^ 2,
        GenOutcome::Panic(p) => rng::hash_str(&p.message) ^ 3,
    }
}

/// Iteration order of a fresh std HashSet: shows which hash seeds a run sampled.
fn hash_order_signature() -> String {
    let s: std::collections::HashSet<u64> = (0..12u64).collect();
    s.iter().map(|x| format!("{x:x}")).collect::<Vec<_>>().join("")
}

pub fn write_inputs_file(path: &std::path::Path, inputs: &[String]) -> std::io::Result<()> {
    let mut buf = vec![];
    for s in inputs {
        buf.extend_from_slice(&(s.len() as u32).to_le_bytes());
        buf.extend_from_slice(s.as_bytes());
    }
    std::fs::write(path, buf)
}

/// `kv layoutprobe <file>`: the file holds a source, a byte position `gap` (the start of a token, or 0)
/// and a run of whitespace / comments; generate(source) and generate(source with the run inserted at
/// `gap`) must agree (hash line apart, positions >= gap shifted by the run's length).  Runs in its own
/// process because the run is huge (10^4 .. 10^6 lines): a stack overflow must not take the worker
/// along.  Prints `BASE <class>` as soon as the plain source is done, then `SAME` or `DIFF <detail>`.
pub fn layoutprobe_main(path: &str) -> i32 {
    use std::io::Write;
    crate::util::install_silent_panic_hook();
    let bytes = std::fs::read(path).expect("read probe");
    let mut i = 0;
    let mut next = || {
        let n = u32::from_le_bytes(bytes[i..i + 4].try_into().unwrap()) as usize;
        i += 4;
        let s = String::from_utf8_lossy(&bytes[i..i + n]).to_string();
        i += n;
        s
    };
    let src = next();
    let gap: usize = next().parse().expect("gap");
    let run = next();
    let (out, _) = kside::generate(&src, u64::MAX);
    println!("BASE {}", out.class());
    let _ = std::io::stdout().flush();
    let mut big = String::with_capacity(src.len() + run.len());
    big.push_str(&src[..gap]);
    big.push_str(&run);
    big.push_str(&src[gap..]);
    let (out2, _) = kside::generate(&big, u64::MAX);
    let shift = |p: usize| Some(if p >= gap { p + run.len() } else { p });
    let base = render_outcome_for_layout(&out);
    let expected = match &out {
        GenOutcome::Err(KikiErr::Parse(s, content, e)) => Ok(format!(
            "{:?}",
            KikiErr::Parse(kiki::ByteIndex(shift(s.0).unwrap()), content.clone(), kiki::ByteIndex(shift(s.0).unwrap() + (e.0 - s.0)))
        )),
        GenOutcome::Err(_) => map_byte_indices(&base, shift),
        _ => Ok(base.clone()),
    };
    let got = render_outcome_for_layout(&out2);
    match expected {
        Ok(e) if e == got => println!("SAME"),
        Ok(e) => println!("DIFF expected {:?} got {:?}", crate::util::truncate(&e, 300), crate::util::truncate(&got, 300)),
        Err(_) => println!("UNMAPPABLE"),
    }
    0
}

/// `kv digest <file>`: print one digest per input (separate process => separate hash seeds).
pub fn digest_main(path: &str) -> i32 {
    crate::util::install_silent_panic_hook();
    let bytes = std::fs::read(path).expect("read inputs");
    let mut i = 0;
    println!("SIG {}", hash_order_signature());
    while i + 4 <= bytes.len() {
        let n = u32::from_le_bytes(bytes[i..i + 4].try_into().unwrap()) as usize;
        i += 4;
        let s = String::from_utf8_lossy(&bytes[i..i + n]).to_string();
        i += n;
        let (out, _) = kside::generate(&s, u64::MAX);
        println!("{:016x}", digest_of(&out));
    }
    0
}

impl Text {
    fn c12(&self, w: &mut Worker, rng: &mut Rng, n: u64) {
        {
            let d = gtext::repo_dictionary();
            w.max("dictionary:source-files-read", d.files_read as u64);
            w.max("dictionary:format-placeholders", d.placeholders.len() as u64);
            w.max("dictionary:identifiers", d.camel.len() as u64);
            w.max("dictionary:string-literals", d.literals.len() as u64);
            w.max("dictionary:assembled-attributes", d.attr_literals.len() as u64);
            w.max("dictionary:attributes-written-out-in-the-sources (with value variants)", d.n_snippets as u64);
        }
        let mut m = small_model(rng);
        let mut all: Vec<(String, String, Vec<String>)> = vec![]; // (decl kind, name, attrs)
        let mut counter = 0;
        let mut mk_attrs = |rng: &mut Rng, counter: &mut usize| -> Vec<String> {
            let k = *rng.pick(&[0usize, 0, 1, 1, 2, 3, 4]);
            let mut v: Vec<String> = (0..k)
                .map(|_| {
                    *counter += 1;
                    if rng.chance(0.06) {
                        hostile_attr(rng, "")
                    } else if rng.chance(0.08) {
                        // an attribute assembled from the string literals of kiki's own sources (a magic
                        // key the generator might react to), or a lint attribute
                        let d = gtext::repo_dictionary();
                        if !d.attr_literals.is_empty() && rng.chance(0.7) {
                            d.pick_attr(rng).unwrap()
                        } else {
                            format!("#[allow({})]", rng.pick_str(gtext::LINT_NAMES))
                        }
                    } else if rng.chance(0.2) {
                        realistic_attr(rng, &format!("kvm{}x{}x", n, counter))
                    } else {
                        hostile_attr(rng, &format!("kvm{}x{}x", n, counter))
                    }
                })
                .collect();
            if !v.is_empty() && rng.chance(0.15) {
                // the same attribute written twice (directly after itself, or elsewhere in the list)
                let i = rng.below(v.len());
                let a = v[i].clone();
                let at = if rng.chance(0.6) { i + 1 } else { rng.below(v.len() + 1) };
                v.insert(at, a);
            }
            v
        };
        for nt in &mut m.nts {
            nt.attrs = mk_attrs(rng, &mut counter);
            all.push((if nt.is_enum { "enum".into() } else { "struct".into() }, nt.name.clone(), nt.attrs.clone()));
        }
        m.term_attrs = mk_attrs(rng, &mut counter);
        all.push(("terminal".into(), m.term_enum.clone(), m.term_attrs.clone()));
        let src = render_with_attr_separators(&m, rng);
        // the workload must itself be valid input: every attribute is one token
        let ok = rlex::lex(&src).map(|t| t.iter().filter(|t| t.kind == rlex::K::Attr).count() == all.iter().map(|a| a.2.len()).sum::<usize>()).unwrap_or(false);
        if !ok {
            w.inconclusive(&format!("generated attribute workload is not lexically valid: {src:?}"));
            return;
        }
        // every fifth grammar is generated inside a build-script-like process environment
        let (out, _) = if n % 5 == 2 {
            w.count("generated-inside-a-build-script-environment");
            let env = kside::build_script_env(rng);
            kside::generate_in_env(&src, 50_000_000, &env)
        } else {
            kside::generate(&src, 50_000_000)
        };
        let text = match &out {
            GenOutcome::Ok(t) => t,
            GenOutcome::Err(KikiErr::TableConflict(_)) => {
                w.count("not-applicable:conflicting-grammar");
                return;
            }
            other => {
                w.count(&format!("masked_upstream:{}", other.class()));
                return;
            }
        };
        let lines: Vec<&str> = text.split('\n').collect();
        let witness = |detail: Value| json!({"grammar_src": src, "detail": detail});
        for (kind, name, attrs) in &all {
            w.eval();
            w.count(&format!("declarations:{kind}:{}-attributes", attrs.len().min(4)));
            let kw = if kind == "struct" { "struct" } else { "enum" };
            let head = format!("pub {kw} {name}");
            let pos: Vec<usize> = lines
                .iter()
                .enumerate()
                .filter(|(_, l)| l.strip_prefix(head.as_str()).map(|r| r.is_empty() || r.starts_with([' ', ';', '(', '{'])).unwrap_or(false))
                .map(|(i, _)| i)
                .collect();
            let [at] = pos.as_slice() else {
                w.inconclusive(&format!("cannot locate `{head}` in the emitted text ({} candidates)", pos.len()));
                return;
            };
            let k = attrs.len();
            let above: Vec<&str> = if *at >= k { lines[at - k..*at].to_vec() } else { vec![] };
            let expected: Vec<&str> = attrs.iter().map(|a| a.as_str()).collect();
            if above != expected {
                let which = expected.iter().zip(above.iter()).position(|(a, b)| a != b).unwrap_or(0);
                let class = if expected.get(which).map(|a| a.bytes().any(|b| b >= 0x80)).unwrap_or(false) { "non-ascii" } else { "ascii" };
                w.violation(
                    &format!("attribute-not-verbatim:{kind}:{class}"),
                    &format!("the lines above `{head}` are not the declaration's attributes"),
                    witness(json!({"expected": expected, "emitted_lines_above": above})),
                );
                continue;
            }
            if *at > k && lines[at - k - 1].starts_with("#[") {
                w.violation(&format!("extra-attribute:{kind}"), &format!("an extra attribute line precedes the attributes of `{head}`"), witness(json!({"line": lines[at - k - 1]})));
            }
            for a in attrs {
                w.count(&format!("attribute-bytes:{}", match a.len() { 0..=8 => "<=8", 9..=32 => "<=32", 33..=128 => "<=128", _ => ">128" }));
                if a.bytes().any(|b| b >= 0x80) {
                    w.count("attributes-with-multibyte-characters");
                }
                if a.len() > 4 {
                    w.nontrivial(rng::hash_str(a));
                }
                if let Some(i) = a.find("kvm") {
                    let marker: String = a[i..].chars().take_while(|c| c.is_ascii_alphanumeric()).collect();
                    let occ = text.matches(&marker).count();
                    if occ != src.matches(&marker).count() {
                        w.violation(&format!("attribute-occurs-{}-times", occ.min(3)), &format!("attribute {a:?} occurs {occ} times in the emitted text"), witness(Value::Null));
                    }
                }
            }
        }
        if w.wants_sample("attributes") && all.iter().any(|a| a.2.len() >= 2) {
            w.sample("attributes", json!({"grammar_src": src}));
        }
    }

    fn c13(&self, w: &mut Worker, rng: &mut Rng) {
        let mut m = small_model(rng);
        if rng.below(120) == 0 {
            // hundreds of terminals with pairwise DIFFERENT payload types (the number of distinct types in
            // one grammar on a threshold), a few of them used by the start struct
            let n = *rng.pick(&[255usize, 256, 257, 258, 300, 1000]);
            let used: Vec<usize> = vec![0, 1, 127, 128, 254, 255, 256, n / 2, n - 2, n - 1];
            let mut used: Vec<usize> = used.into_iter().filter(|i| *i < n).collect();
            used.sort();
            used.dedup();
            let style = if rng.chance(0.5) { Style::Named } else { Style::Tuple };
            m = Model {
                nts: vec![Nt {
                    name: "S".into(),
                    is_enum: false,
                    prods: vec![Prod { name: String::new(), style, fields: used.iter().map(|i| Field { sym: Sym::T(*i), used: true, name: format!("f{i}") }).collect() }],
                    attrs: vec![],
                }],
                terms: (0..n).map(|i| Term { name: format!("T{i}"), ty: TypeExpr::Unit }).collect(),
                term_enum: "Tok".into(),
                term_attrs: vec![],
                start: 0,
                start_pos: 0,
                term_pos: 1,
            };
            let wrap = rng.below(3);
            for (i, t) in m.terms.iter_mut().enumerate() {
                t.ty = match wrap {
                    0 => TypeExpr::path(&format!("crate::p::P{i}")),
                    1 => TypeExpr::Generic(vec!["W".into()], vec![TypeExpr::path(&format!("P{i}")), TypeExpr::Unit]),
                    _ => TypeExpr::Generic(vec!["Vec".into()], vec![TypeExpr::path(&format!("x::Q{i}"))]),
                };
            }
            w.count("grammars-with-hundreds-of-distinct-payload-types");
            w.max("max-distinct-payload-types", n as u64);
            return self.c13_check(w, rng, m);
        }
        if m.terms.is_empty() {
            w.count("not-applicable:no-terminals");
            return;
        }
        for t in &mut m.terms {
            t.ty = random_type(rng, 0);
        }
        if rng.chance(0.05) {
            // deep nesting, the nested type in any argument position
            let d = *rng.pick(&[9usize, 17, 33, 64, 100, 128, 129, 130, 131, 160, 200, 255, 256]);
            let k = rng.below(m.terms.len());
            m.terms[k].ty = crate::model::deep_type(rng, d);
            w.count("grammars-with-deeply-nested-payload-type");
            w.max("max-payload-type-nesting", d as u64);
        }
        if rng.chance(0.4) {
            confusable_terminal_names(&mut m, rng);
            w.count("grammars-with-confusable-terminal-names");
        }
        self.c13_check(w, rng, m)
    }

    fn c13_check(&self, w: &mut Worker, rng: &mut Rng, m: Model) {
        // render with layout inside the types
        let mut plain = m.clone();
        let placeholders: Vec<String> = (0..m.terms.len()).map(|i| format!("KvPlaceholder{i}")).collect();
        for (t, p) in plain.terms.iter_mut().zip(&placeholders) {
            t.ty = TypeExpr::path(p);
        }
        let mut src = plain.render();
        for (t, p) in m.terms.iter().zip(&placeholders) {
            src = src.replacen(&format!(": {p}\n"), &format!(": {}", type_src_with_layout(&t.ty, rng)), 1);
        }
        // validity of the workload: the reference front end must read back the same types
        match crate::rkiki::reference_ast(&src).ok().and_then(|i| crate::rkiki::to_model(&i).ok()) {
            Some(back) if back.terms.iter().map(|t| &t.ty).eq(m.terms.iter().map(|t| &t.ty)) => {}
            _ => {
                w.inconclusive(&format!("generated type workload does not read back: {src:?}"));
                return;
            }
        }
        let (out, _) = if rng.chance(0.2) {
            w.count("generated-inside-a-build-script-environment");
            let env = kside::build_script_env(rng);
            kside::generate_in_env(&src, 50_000_000, &env)
        } else {
            kside::generate(&src, 50_000_000)
        };
        let text = match &out {
            GenOutcome::Ok(t) => t,
            GenOutcome::Err(KikiErr::TableConflict(_)) => {
                w.count("not-applicable:conflicting-grammar");
                return;
            }
            other => {
                w.count(&format!("masked_upstream:{}", other.class()));
                return;
            }
        };
        let items = match skim::lex(text).and_then(|t| skim::items(&t)) {
            Ok(i) => i,
            Err(e) => {
                w.inconclusive(&format!("cannot read the emitted text: {e}"));
                return;
            }
        };
        let witness = |detail: Value| json!({"grammar_src": src, "detail": detail});
        let mut sites = 0u64;
        // use site 1: the terminal enum; use site 2: every field of that terminal (through the type definitions)
        match shape::check_type_definitions(&items, &m, false) {
            Ok(n) => sites += n as u64,
            Err(e) => {
                w.violation("payload-type-differs-in-type-definition", &e, witness(Value::Null));
                return;
            }
        }
        // use sites 3 and 4: helper code (node enum variants, try_into_* return types)
        let tables = match skim::tables(&items) {
            Ok(t) => t,
            Err(e) => {
                w.inconclusive(&format!("cannot read the helper items: {e}"));
                return;
            }
        };
        let node = items.iter().find(|i| i.kind == ItemKind::Enum && i.name == tables.node_enum);
        let Some(node) = node else {
            w.inconclusive("node enum not found");
            return;
        };
        let node_variants = match shape::read_enum(node) {
            Ok(shape::TypeShape::Enum(v)) => v,
            _ => {
                w.inconclusive("node enum unreadable");
                return;
            }
        };
        for t in &m.terms {
            let exp = shape::type_tokens(&t.ty);
            let got = node_variants.iter().find(|(n, _)| *n == t.name);
            match got {
                Some((_, shape::BodyShape::Tuple(f))) if f.len() == 1 && f[0].ty == exp => sites += 1,
                other => {
                    w.violation("payload-type-differs-in-node-enum", &format!("terminal {}: expected {:?}, emitted {:?}", t.name, exp, other), witness(Value::Null));
                    return;
                }
            }
        }
        // impl Node { fn try_into_*(self) -> Result<T, Self> }
        let mut ret_types: Vec<Vec<String>> = vec![];
        for imp in items.iter().filter(|i| i.kind == ItemKind::Impl && i.header.len() == 1 && i.header[0].is_ident(&tables.node_enum)) {
            let body: Vec<(Tok, usize)> = imp.body.iter().cloned().map(|t| (t, 0)).collect();
            if let Ok(inner) = skim::items(&body) {
                for f in inner.iter().filter(|f| f.kind == ItemKind::Fn && f.name.starts_with("try_into_")) {
                    // header: ( self ) -> Result < T , Self >
                    let h = &f.header;
                    if let Some(p) = h.iter().position(|t| t.is_p("->")) {
                        let r = &h[p + 1..];
                        if r.len() >= 6 && r[0].is_ident("Result") && r[1].is_p("<") && r[r.len() - 1].is_p(">") && r[r.len() - 2].is_ident("Self") && r[r.len() - 3].is_p(",") {
                            ret_types.push(r[2..r.len() - 3].iter().map(|t| t.text()).collect());
                        }
                    }
                }
            }
        }
        if ret_types.len() != m.terms.len() {
            w.inconclusive(&format!("found {} try_into_* helpers for {} terminals", ret_types.len(), m.terms.len()));
            return;
        }
        for (t, got) in m.terms.iter().zip(&ret_types) {
            let exp = shape::type_tokens(&t.ty);
            if *got != exp {
                w.violation("payload-type-differs-in-helper-return-type", &format!("terminal {}: expected {:?}, emitted {:?}", t.name, exp, got), witness(Value::Null));
                return;
            }
            sites += 1;
        }
        w.eval();
        w.count_n("use-sites-compared", sites);
        for t in &m.terms {
            w.count(&format!("type-depth:{}", t.ty.depth().min(8)));
            w.nontrivial(rng::hash_str(&t.ty.text()));
        }
        if w.wants_sample("types") && m.terms.iter().any(|t| t.ty.depth() >= 2) {
            w.sample("types", json!({"grammar_src": src, "types": m.terms.iter().map(|t| t.ty.text()).collect::<Vec<_>>()}));
        }
    }

    /// 70 000 calls in one thread of one process (a counter that wraps, a table that fills up, a cache that
    /// starts evicting): the answers at calls 1, 2^8, 2^16 and beyond must be the first call's answer.
    fn c14_many_calls(&self, w: &mut Worker) {
        let srcs = ["start S\nstruct S\nterminal T {}\n", "start S\nstruct S($A\n", "start E\nenum E { A($X E) B }\nterminal K { $X: u8 }\n"];
        let first: Vec<u64> = srcs.iter().map(|s| digest_of(&kside::generate(s, u64::MAX).0)).collect();
        let checkpoints = [2u64, 255, 256, 257, 4096, 65_535, 65_536, 65_537, 70_000];
        let mut n = 1u64;
        while n <= 70_000 {
            n += 1;
            let k = (n % 3) as usize;
            let out = kside::generate(srcs[k], u64::MAX).0;
            if checkpoints.contains(&n) || n % 9973 == 0 {
                // (all three sources at a checkpoint)
                for (j, s) in srcs.iter().enumerate() {
                    let d = if j == k { digest_of(&out) } else { digest_of(&kside::generate(s, u64::MAX).0) };
                    w.eval();
                    if d != first[j] {
                        w.violation(
                            &format!("nondeterministic-result:after-many-calls:{}", out.class()),
                            &format!("call number {n} on this thread answers differently from the first call"),
                            json!({"text": s, "call_number": n}),
                        );
                        return;
                    }
                }
            }
        }
        w.count("many-calls-histories");
        w.max("max-calls-in-one-thread", n);
    }

    fn c14_batch(&self, w: &mut Worker, idx: u64) {
        if idx == 3 {
            self.c14_many_calls(w);
        }
        let mut inputs: Vec<(String, String)> = vec![];
        for sub in 0..BATCH {
            let n = idx * BATCH + sub;
            let mut rng = Rng::for_case(w.seed, "text-C14", n);
            inputs.push(any_source(&mut rng, w.seed, n));
        }
        let texts: Vec<String> = inputs.iter().map(|x| x.1.clone()).collect();
        // 8 runs in this process, each on a fresh thread (fresh SipHash keys for every HashMap)
        let mut runs: Vec<Vec<u64>> = vec![];
        for run in 0..8 {
            let t = texts.clone();
            let h = std::thread::Builder::new().stack_size(64 << 20).spawn(move || {
                let sig = hash_order_signature();
                // odd runs go through the batch backwards, and one run calls every input twice in a row:
                // a result that depends on what was generated before (a cache, a counter, leftover
                // state) shows up as a difference between runs
                let order: Vec<usize> = if run % 2 == 1 { (0..t.len()).rev().collect() } else { (0..t.len()).collect() };
                let mut d = vec![0u64; t.len()];
                for i in order {
                    if run == 2 {
                        let _ = kside::generate(&t[i], u64::MAX);
                    }
                    // the text handed over as a sub-slice that starts `run` bytes into a buffer: every
                    // alignment of the argument modulo 8 (a fresh String is always 16-byte aligned)
                    let mut buf = String::with_capacity(t[i].len() + 16);
                    buf.push_str(&"#".repeat(run));
                    buf.push_str(&t[i]);
                    let view: &str = &buf[run..];
                    debug_assert_eq!(view.as_ptr() as usize % 8, (buf.as_ptr() as usize + run) % 8);
                    d[i] = digest_of(&kside::generate(view, u64::MAX).0);
                }
                (sig, d)
            });
            match h.map(|h| h.join()) {
                Ok(Ok((sig, d))) => {
                    w.set_insert("hash-order-signatures", sig);
                    runs.push(d);
                }
                _ => {
                    w.inconclusive("a determinism run died");
                    return;
                }
            }
        }
        // 4 threads at the same time, each starting at another offset of the batch (and one of them
        // mixing in the other public entry point): state shared between concurrent calls
        {
            let shared = std::sync::Arc::new(texts.clone());
            let handles: Vec<_> = (0..4usize)
                .map(|k| {
                    let t = shared.clone();
                    std::thread::Builder::new().stack_size(64 << 20).spawn(move || {
                        let n = t.len();
                        let mut d = vec![0u64; n];
                        for j in 0..n {
                            let i = (j + k * n / 4) % n;
                            d[i] = digest_of(&kside::generate(&t[i], u64::MAX).0);
                            if k == 3 {
                                let _ = crate::util::catch(|| kiki::get_grammar_hash(kiki::RustSrcRef(&t[i])).map(|s| s.len()));
                            }
                        }
                        d
                    })
                })
                .collect();
            for h in handles {
                match h.map(|h| h.join()) {
                    Ok(Ok(d)) => {
                        runs.push(d);
                        w.count("concurrent-thread-runs");
                    }
                    _ => {
                        w.inconclusive("a concurrent determinism run died");
                        return;
                    }
                }
            }
        }
        // 2 further processes
        let path = w.scratch.join(format!("c14-{}.bin", w.shard));
        if write_inputs_file(&path, &texts).is_ok() {
            for _ in 0..2 {
                let exe = std::env::current_exe().expect("current_exe");
                // (each of the two processes gets a build-script-like environment of its own)
                let mut erng = Rng::for_case(w.seed, "text-C14-env", idx * 2 + runs.len() as u64);
                let mut cmd = std::process::Command::new(exe);
                cmd.arg("digest").arg(&path);
                if runs.len() % 2 == 1 {
                    // this one may use a single CPU only (available_parallelism() == 1)
                    use std::os::unix::process::CommandExt;
                    unsafe {
                        cmd.pre_exec(|| {
                            let mut set: libc::cpu_set_t = std::mem::zeroed();
                            if libc::sched_getaffinity(0, std::mem::size_of::<libc::cpu_set_t>(), &mut set) == 0 {
                                let first = (0..libc::CPU_SETSIZE as usize).find(|c| libc::CPU_ISSET(*c, &set));
                                if let Some(c) = first {
                                    let mut one: libc::cpu_set_t = std::mem::zeroed();
                                    libc::CPU_SET(c, &mut one);
                                    libc::sched_setaffinity(0, std::mem::size_of::<libc::cpu_set_t>(), &one);
                                }
                            }
                            Ok(())
                        });
                    }
                }
                for (k, v) in kside::build_script_env(&mut erng) {
                    if k != "HOME" && k != "RUST_BACKTRACE" {
                        cmd.env(k, v);
                    }
                }
                match cmd.output() {
                    Ok(o) if o.status.success() => {
                        let s = String::from_utf8_lossy(&o.stdout);
                        let mut d = vec![];
                        for l in s.lines() {
                            if let Some(sig) = l.strip_prefix("SIG ") {
                                w.set_insert("hash-order-signatures", sig.to_string());
                            } else if let Ok(x) = u64::from_str_radix(l.trim(), 16) {
                                d.push(x);
                            }
                        }
                        if d.len() == texts.len() {
                            runs.push(d);
                            w.count("cross-process-runs");
                        } else {
                            w.inconclusive("digest child returned too few lines");
                        }
                    }
                    _ => w.inconclusive("digest child failed"),
                }
            }
        }
        for (i, (class, text)) in inputs.iter().enumerate() {
            w.eval_n(runs.len() as u64);
            w.count(&format!("class:{class}"));
            let (out, _) = kside::generate(text, u64::MAX);
            w.count(&format!("outcome:{}", out.class()));
            if matches!(out, GenOutcome::Ok(_) | GenOutcome::Err(KikiErr::TableConflict(_))) {
                w.nontrivial(rng::hash_str(text));
            }
            let first = runs[0][i];
            if runs.iter().any(|r| r[i] != first) || digest_of(&out) != first {
                w.violation(
                    &format!("nondeterministic-result:{}", out.class()),
                    "repeated calls of generate on the same text returned different results",
                    json!({"text": text, "digests": runs.iter().map(|r| format!("{:016x}", r[i])).collect::<Vec<_>>(), "one_result": out.render()}),
                );
            }
            if w.wants_sample(&out.class()) && text.len() > 20 {
                w.sample(&out.class(), json!({"text": crate::util::truncate(text, 300), "runs": runs.len(), "digest": format!("{first:016x}")}));
            }
        }
    }

    /// One accepted source of more than 2^29 bytes (a 512 MiB comment in front of a tiny grammar): the
    /// bit length of the hashed message no longer fits 32 bits.
    fn c15_giant(&self, w: &mut Worker) {
        let n = (1usize << 29) + 12_345;
        let mut src = String::with_capacity(n + 64);
        src.push_str("//");
        let chunk = "x".repeat(1 << 20);
        while src.len() + chunk.len() <= n {
            src.push_str(&chunk);
        }
        while src.len() < n {
            src.push('y');
        }
        src.push_str("\nstart S\nstruct S\nterminal T {}\n");
        let (out, _) = kside::generate(&src, 50_000_000);
        let GenOutcome::Ok(text) = &out else {
            w.count("not-applicable:giant-source-not-accepted");
            return;
        };
        w.eval();
        w.count("giant-sources");
        w.max("max-source-bytes", src.len() as u64);
        let digest = sha::sha256_hex(src.as_bytes());
        let found = text.lines().take_while(|l| l.starts_with("//")).any(|l| l == format!("// @sha256 {digest}"));
        if !found {
            w.violation(
                "header-does-not-carry-source-hash:source-larger-than-2^29-bytes",
                "the leading comment block of the emitted text does not contain `// @sha256 <SHA-256 of the source>`",
                json!({"source": format!("`//` + {} filler bytes + \"\\nstart S\\nstruct S\\nterminal T {{}}\\n\"", n - 2), "reference_sha256": digest, "emitted_head": text.lines().take(8).collect::<Vec<_>>()}),
            );
        }
    }

    fn c15(&self, w: &mut Worker, rng: &mut Rng, n: u64) {
        if n == 7 {
            self.c15_giant(w);
        }
        if n % 3 != 0 {
            // arbitrary texts
            let t = if rng.chance(0.8) {
                header_like_text(rng)
            } else {
                gtext::soup(rng, 12)
            };
            let got = crate::util::catch(|| kiki::get_grammar_hash(kiki::RustSrcRef(&t)).map(|s| s.to_string()));
            w.eval();
            w.count("arbitrary-texts");
            let exp = model_grammar_hash(&t).map(|s| s.to_string());
            w.count(if exp.is_some() { "model:Some" } else { "model:None" });
            w.nontrivial(rng::hash_str(&t));
            match got {
                Ok(g) if g == exp => {}
                Ok(g) => w.violation(
                    if exp.is_some() && g.is_some() { "wrong-remainder" } else if exp.is_some() { "hash-line-missed" } else { "hash-reported-where-none" },
                    &format!("get_grammar_hash returned {g:?}, the rule gives {exp:?}"),
                    json!({"text": t}),
                ),
                Err(p) => w.violation("get_grammar_hash-panicked", &p.message, json!({"text": t})),
            }
            if w.wants_sample("header-like") && exp.is_some() {
                w.sample("header-like", json!({"text": t, "expected": exp}));
            }
            return;
        }
        // accepted sources
        let m = small_model(rng);
        let mut src = m.render();
        match rng.below(11) {
            8 => {
                // Unicode whitespace the tokenizer skips: part of the hashed text all the same
                let ws = rng.pick_str(&["\u{2028}", "\u{85}", "\u{3000}", "\u{c}", "\u{b}", "\u{2029}", "\u{1680}", "\u{205f}"]);
                src = match rng.below(3) {
                    0 => format!("{ws}{src}"),
                    1 => format!("{src}{ws}"),
                    _ => src.replacen(' ', ws, 1 + rng.below(3) as usize),
                };
            }
            9 | 10 => {
                // invisible non-whitespace characters a lenient front end might strip (these are
                // lexical errors, so normally nothing is emitted and nothing is checked)
                let inv = rng.pick_str(&["\u{feff}", "\u{200b}", "\0", "\u{1a}", "\u{2060}", "\u{180e}", "\u{200e}", "\u{fffe}", "\u{ad}"]);
                src = if rng.chance(0.6) { format!("{inv}{src}") } else { format!("{src}{inv}") };
                w.count("lenient-front-end-probes");
            }
            0 => src = src.trim_end().to_string(),
            1 => src = src.replace('\n', "\r\n"),
            2 => src.push_str("// é 中 𝄞\n"),
            3 => src = format!("// {}\n{src}", "x".repeat(rng.range(1, 60_000))),
            4 => src.push_str("\n\n\n"),
            5 => src = format!("\u{a0}{src}"),
            _ => {}
        }
        let (out, _) = kside::generate(&src, 50_000_000);
        let GenOutcome::Ok(text) = &out else {
            w.count("not-applicable:not-accepted");
            return;
        };
        w.eval();
        w.count("accepted-sources");
        w.nontrivial(rng::hash_str(&src));
        let digest = sha::sha256_hex(src.as_bytes());
        let witness = || json!({"grammar_src": crate::util::truncate(&src, 600), "reference_sha256": digest, "emitted_head": text.lines().take(8).collect::<Vec<_>>()});
        // the header: a leading block of // lines containing `// @sha256 <digest>`
        let mut found = false;
        for line in text.lines() {
            if !line.starts_with("//") {
                break;
            }
            if line == format!("// @sha256 {digest}") {
                found = true;
                break;
            }
        }
        if !found {
            w.violation("header-does-not-carry-source-hash", "the leading comment block of the emitted text does not contain `// @sha256 <SHA-256 of the source>`", witness());
            return;
        }
        let got = kiki::get_grammar_hash(kiki::RustSrcRef(text)).map(|s| s.to_string());
        if got.as_deref() != Some(digest.as_str()) {
            w.violation("get_grammar_hash-does-not-read-back", &format!("get_grammar_hash(emitted) = {got:?}"), witness());
            return;
        }
        // build-script freshness emulation: stored digest == digest of the current file
        let fresh = |current: &str| got.as_deref() == Some(sha::sha256_hex(current.as_bytes()).as_str());
        if !fresh(&src) {
            w.violation("fresh-output-considered-stale", "", witness());
        }
        let mut other = src.clone().into_bytes();
        let k = rng.below(other.len().max(1));
        if !other.is_empty() {
            other[k] = if other[k] == b' ' { b'\t' } else { b' ' };
        }
        let other = String::from_utf8_lossy(&other).to_string();
        if other != src {
            w.count("stale-pairs-checked");
            if fresh(&other) {
                w.violation("stale-output-considered-fresh", "", witness());
            }
        }
        if w.wants_sample("accepted") {
            w.sample("accepted", json!({"grammar_src": crate::util::truncate(&src, 300), "sha256": digest}));
        }
    }

    /// A huge run of whitespace / comments in one gap of the source, in a child process.
    fn c16_huge_trivia(&self, w: &mut Worker, rng: &mut Rng, src: &str) {
        // the gap: the very start, or the start of a token that is separated from its predecessor
        let (toks, _) = rlex::lex_partial(src);
        let mut gaps = vec![0usize];
        for pair in toks.windows(2) {
            if pair[0].end < pair[1].start {
                gaps.push(pair[1].start);
            }
        }
        let gap = *rng.pick(&gaps);
        let lines = *rng.pick(&[10_000usize, 30_000, 100_000, 400_000, 1_000_000]);
        let unit = rng.pick_str(&["//\n", "// c\n", "//\r\n", "\n", " ", "\u{2003}", " // é\n", "\t//x\n\n", "\r\n"]);
        let mut run = unit.repeat(lines);
        run.push('\n');
        let path = w.scratch.join(format!("c16-probe-{}.bin", w.shard));
        if write_inputs_file(&path, &[src.to_string(), gap.to_string(), run.clone()]).is_err() {
            w.inconclusive("cannot write the layout probe");
            return;
        }
        let exe = std::env::current_exe().expect("current_exe");
        let mut cmd = std::process::Command::new(exe);
        cmd.arg("layoutprobe").arg(&path).stdin(std::process::Stdio::null()).stdout(std::process::Stdio::piped()).stderr(std::process::Stdio::piped());
        crate::util::limit_cpu_and_memory(&mut cmd, 300, 8 << 30);
        let Ok(o) = cmd.output() else {
            w.inconclusive("cannot run the layout probe");
            return;
        };
        let stdout = String::from_utf8_lossy(&o.stdout).to_string();
        let stderr = String::from_utf8_lossy(&o.stderr).to_string();
        let witness = json!({"source": src, "gap_at_byte": gap, "inserted_run": format!("{:?} x {lines}", unit), "child_stdout": crate::util::truncate(&stdout, 800), "child_stderr_tail": crate::util::truncate(&stderr, 400)});
        w.eval();
        w.count("huge-trivia-probes");
        w.max("max-inserted-trivia-bytes", run.len() as u64);
        if stdout.contains("\nSAME") || stdout.starts_with("SAME") {
            return;
        }
        if stdout.contains("DIFF ") {
            w.violation("layout-changes-result:huge-trivia-run", "inserting a long run of whitespace / comments between two tokens changed the result", witness);
        } else if stdout.contains("BASE ") && !o.status.success() && (stderr.contains("overflowed its stack") || stderr.contains("stack overflow")) {
            // the plain source was answered, the same tokens behind the run kill the process
            w.violation("layout-changes-result:huge-trivia-run:stack-overflow", "the source is answered, the same tokens with a long run of whitespace / comments inserted overflow the stack", witness);
        } else {
            // out of memory, CPU budget, anything else: not a verdict
            w.inconclusive(&format!("layout probe ended without a verdict: status {:?}, stdout {:?}", o.status, crate::util::truncate(&stdout, 120)));
        }
    }

    fn c16(&self, w: &mut Worker, rng: &mut Rng, n: u64) {
        let (class, src) = any_source(rng, w.seed, n);
        if n % w.tier.pick(211, 4001) == 5 && src.len() < 200_000 {
            self.c16_huge_trivia(w, rng, &src);
        }
        let (out, _) = kside::generate(&src, 50_000_000);
        if let GenOutcome::Panic(_) = out {
            w.count("masked_upstream:panic");
            return;
        }
        let base = render_outcome_for_layout(&out);
        let mut did = 0;
        for round in 0..6 {
            // (one of the six re-layouts of every third source puts the tokens on a page grid)
            let aligned = round == 5 && n % w.tier.pick(5, 40) == 0;
            let Some(r) = (if aligned { relayout_aligned(&src, rng) } else { relayout(&src, rng) }) else {
                w.count("relayout-not-possible");
                continue;
            };
            if aligned {
                w.count("page-geometry-relayouts");
            }
            if r.text == src {
                continue;
            }
            let (out2, _) = kside::generate(&r.text, 50_000_000);
            w.eval();
            did += 1;
            w.count(&format!("outcome:{}", out.class()));
            let got = render_outcome_for_layout(&out2);
            // expected: same result with positions shifted
            let expected = match &out {
                GenOutcome::Err(KikiErr::Parse(s, content, e)) => {
                    // start is a token start (or the end of the text); end = start + len(content)
                    match r.map_pos(s.0) {
                        Some(ns) => Ok(format!("{:?}", KikiErr::Parse(kiki::ByteIndex(ns), content.clone(), kiki::ByteIndex(ns + (e.0 - s.0))))),
                        None => Err(s.0),
                    }
                }
                GenOutcome::Err(_) => map_byte_indices(&base, |p| r.map_pos(p)),
                _ => Ok(base.clone()),
            };
            let witness = |detail: Value| json!({"source": src, "relayout": r.text, "result_for_source": crate::util::truncate(&base, 500), "result_for_relayout": crate::util::truncate(&got, 500), "detail": detail});
            match expected {
                Err(p) => {
                    w.violation(&format!("error-position-not-at-a-token:{}", out.class()), &format!("the error for the original text carries byte position {p}, which is neither inside a token nor the end of the text"), witness(Value::Null));
                }
                Ok(exp) => {
                    if exp != got {
                        w.violation(
                            &format!("layout-changes-result:{}", out.class()),
                            "a re-layout with the same token sequence changed the result (beyond the embedded source hash / shifted positions)",
                            witness(json!({"expected_for_relayout": crate::util::truncate(&exp, 500)})),
                        );
                    }
                }
            }
        }
        if did > 0 {
            w.count(&format!("class:{class}"));
            w.nontrivial(rng::hash_str(&src));
            if w.wants_sample(&out.class()) && src.len() > 20 {
                w.sample(&out.class(), json!({"source": crate::util::truncate(&src, 300), "outcome": out.class(), "relayouts": did}));
            }
        }
    }
}

impl Engine for Text {
    fn name(&self) -> &'static str {
        "text"
    }
    fn total_cases(&self, prop: &str, tier: Tier) -> u64 {
        n_batches(prop, tier)
    }
    fn run_case(&self, w: &mut Worker, idx: u64) {
        let prop = w.prop.clone();
        if prop == "C14" {
            self.c14_batch(w, idx);
            return;
        }
        for sub in 0..BATCH {
            w.sub(sub);
            let n = idx * BATCH + sub;
            let mut rng = Rng::for_case(w.seed, &format!("text-{prop}"), n);
            match prop.as_str() {
                "C12" => self.c12(w, &mut rng, n),
                "C13" => self.c13(w, &mut rng),
                "C15" => self.c15(w, &mut rng, n),
                "C16" => self.c16(w, &mut rng, n),
                _ => {}
            }
        }
    }
    fn describe_case(&self, prop: &str, _tier: Tier, _seed: u64, idx: u64, sub: u64) -> Value {
        json!({"class": format!("text-{prop}"), "batch": idx, "sub": sub})
    }
    fn rule(&self, prop: &str) -> String {
        match prop {
            "C12" => "inputs: generated grammars whose struct / enum / terminal declarations carry 0-4 outer attributes each; attribute texts are random over an alphabet of everything but LF (nested brackets of the three kinds, //, #, $, quotes, TAB, CR, U+00A0, U+2028, U+FEFF, 2/3/4-byte characters at any offset incl. directly before the closing bracket, empty #[]), each with a unique marker, followed in the source by nothing / spaces / comments / newlines. One evaluation = one declaration: the lines immediately above `pub struct|enum <Name>` in the emitted text must be byte-for-byte the declaration's attributes in order, no attribute line may precede them, and every marked attribute must occur in the whole emitted text exactly as often as in the source (15 % of the non-empty lists repeat one attribute, directly after itself or elsewhere). Attribute texts also nest brackets 100-70 000 deep (6 %) and draw 6 % of their atoms from a dictionary harvested at run time from kiki's own sources (format placeholders like {node_enum_name}, identifiers). Distinct non-trivial = distinct attribute texts longer than 4 bytes.".into(),
            "C13" => "inputs: generated grammars whose terminals have random payload types from the Kiki type grammar (unit, paths of 1-6 segments, generics nested to depth 8 with 1-4 arguments, unit as argument) written with random whitespace / comments between their tokens. One evaluation = one emitted module: at every use site (terminal enum variant, every struct / variant field of that terminal, node enum variant, try_into_* return type) the emitted type, re-tokenised, must equal the declared token sequence. Distinct non-trivial = distinct type expressions.".into(),
            "C14" => "inputs: sources of every class (accepted grammars incl. the repository examples, conflicting grammars, every validation error, parse errors, lexical errors). One evaluation = one call of generate; every input is run 8 times in one process on 8 fresh threads (fresh SipHash keys per HashMap; run k passes the text as a slice that starts k bytes into a buffer, i.e. at every alignment modulo 8; odd runs go through the batch of 16 inputs backwards and one run calls every input twice in a row, so a dependence on earlier calls is visible), 4 more times on 4 threads running at the same time (each starting at another offset of the batch, one of them also calling get_grammar_hash: state shared between concurrent calls) and once in each of 2 further processes (one of them confined to a single CPU; each with a different build-script-like process environment: OPT_LEVEL, PROFILE, TARGET, LANG ... and every variable kiki's sources read); the bytes of Ok results / the {:?} of errors (positions and attached automaton included) must be identical. One history of 70 000 calls on one thread compares the answers at calls 2^8, 2^12, 2^16 ... with the first. A canary HashSet iterated in every run records how many distinct hash orders were actually sampled. Distinct non-trivial = distinct inputs that reach the automaton construction (Ok or TableConflict).".into(),
            "C15" => "inputs: (a) accepted sources with / without trailing newline, CRLF, non-ASCII, leading comment up to 60 KB, and ONE source of 2^29 + 12 345 bytes (the bit length of the hashed message exceeds 32 bits): the emitted text must start with a // block containing `// @sha256 ` + the SHA-256 of the source computed by an independent implementation, get_grammar_hash must return exactly that digest, and the build-script freshness test (stored digest == digest of current file) must accept the same text and reject a text differing in one byte; (b) header-like texts assembled from fragments (//, `// @sha256 `, repeated prefixes, CR, CRLF, blank and non-comment lines, Unicode): get_grammar_hash vs the rule in the property statement. One evaluation = one text. Distinct non-trivial = distinct texts.".into(),
            _ => "inputs: sources of every class (accepted, conflicting, every validation error, parse errors, lexical errors - there only the text before the offending lexeme is re-laid-out), each re-joined up to 6 times from the reference lexer's tokens with random separators: nothing where legal, any Unicode whitespace, LF / CRLF, // comments with arbitrary content, comment at the end without newline, everything on one line; every fifth source also gets a PAGE-GEOMETRY layout (every token placed on / next to / ending at a multiple of 8 .. 65 536 bytes, with whole pages of pure ASCII blanks in every gap); every 211th source additionally gets one HUGE run (10^4 .. 10^6 comment lines, blank lines, spaces ...) inserted in one gap, run in a child process; validity of the re-layout (same kinds and texts) is re-checked with the reference lexer. One evaluation = one (source, re-layout) pair: Ok outputs must be identical outside the `// @sha256` line, errors identical after mapping every byte position through the token-start map. Distinct non-trivial = distinct sources with at least one re-layout.".into(),
        }
    }
    fn floors(&self, prop: &str, _tier: Tier, agg: &Agg) -> Vec<String> {
        let mut out = vec![];
        let masked = agg.counters_with_prefix("masked_upstream:");
        if masked * 5 > agg.evaluations + masked {
            out.push(format!("{masked} cases masked upstream (> 20%)"));
        }
        match prop {
            "C12" => {
                if agg.counter("attributes-with-multibyte-characters") < 500 {
                    out.push("fewer than 500 attributes with multi-byte characters".into());
                }
            }
            "C14" => {
                if agg.set_len("hash-order-signatures") < 8 {
                    out.push(format!("only {} distinct hash orders sampled", agg.set_len("hash-order-signatures")));
                }
                if agg.counter("cross-process-runs") < 10 {
                    out.push("too few cross-process runs".into());
                }
            }
            "C15" => {
                if agg.counter("accepted-sources") < 500 || agg.counter("model:Some") < 500 {
                    out.push("too few accepted sources / texts with a hash line".into());
                }
            }
            "C16" => {
                for k in ["Ok", "TableConflict", "Parse", "Lex", "NameClash", "UndefinedNonterminal"] {
                    if agg.counter(&format!("outcome:{k}")) < 50 {
                        out.push(format!("fewer than 50 re-layouts of sources with outcome {k}"));
                    }
                }
            }
            _ => {}
        }
        out
    }
    fn assumptions(&self, prop: &str) -> Vec<String> {
        match prop {
            "C14" => vec!["std RandomState seeds cannot be chosen, only sampled; detection of an iteration-order dependence is probabilistic per input (>= 1/2 per pair of runs for a set of >= 2 elements)".into()],
            "C15" => vec!["R-sha256 (harness/src/sha.rs) is self-tested against the FIPS 180-4 vectors before use".into()],
            _ => vec!["the reference lexer (harness/src/rlex.rs) decides what a token is".into()],
        }
    }
    fn extra_coverage(&self, _prop: &str, _tier: Tier, _agg: &Agg) -> Map<String, Value> {
        Map::new()
    }
}
