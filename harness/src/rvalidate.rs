//! R-validate: from the reference AST, the set of *all* static violations
//! present in a file, each with the payload that would truthfully describe it.

use crate::rkiki::*;
use kiki::KikiErr;

#[derive(Clone, Debug, PartialEq, Eq, Hash, PartialOrd, Ord)]
pub enum Violation {
    NoStart,
    /// all `start` identifier positions (>= 2)
    MultipleStart(Vec<usize>),
    NoTerminalEnum,
    /// all terminal enum name positions (>= 2)
    MultipleTerminalEnums(Vec<usize>),
    /// position of a nonterminal / variant / terminal / terminal-enum name whose first letter is not uppercase
    NotUppercase(usize),
    /// position of a field name whose first letter is not lowercase
    NotLowercase(usize),
    /// the top-level name is defined at both positions (unordered pair, p < q)
    NameClash(String, usize, usize),
    VariantNameClash(String, usize, usize),
    /// symbol sequence as (is_terminal, name); positions of the two variant names
    VariantSeqClash(Vec<(bool, String)>, usize, usize),
    UndefinedNonterminal(String, usize),
    UndefinedTerminal(String, usize),
    /// The enumeration was cut off (more than `MAX_LISTED` violations, e.g. thousands of equally named
    /// variants give millions of clashing pairs): the list is incomplete, callers must not decide on it.
    TooMany,
}

pub const MAX_LISTED: usize = 200_000;

impl Violation {
    pub fn kind(&self) -> &'static str {
        match self {
            Violation::NoStart => "NoStartSymbol",
            Violation::MultipleStart(_) => "MultipleStartSymbols",
            Violation::NoTerminalEnum => "NoTerminalEnum",
            Violation::MultipleTerminalEnums(_) => "MultipleTerminalEnums",
            Violation::NotUppercase(_) => "SymbolOrTerminalEnumNameFirstLetterNotUppercase",
            Violation::NotLowercase(_) => "FieldFirstLetterNotLowercase",
            Violation::NameClash(..) => "NameClash",
            Violation::VariantNameClash(..) => "NonterminalEnumVariantNameClash",
            Violation::VariantSeqClash(..) => "NonterminalEnumVariantSymbolSequenceClash",
            Violation::UndefinedNonterminal(..) => "UndefinedNonterminal",
            Violation::UndefinedTerminal(..) => "UndefinedTerminal",
            Violation::TooMany => "TooMany",
        }
    }
}

fn first_letter(s: &str) -> Option<char> {
    s.chars().find(|c| c.is_ascii_alphabetic())
}

fn seq_of(fs: &RFieldset) -> Vec<(bool, String)> {
    fs.fields()
        .iter()
        .map(|f| match &f.sym {
            RSym::N(i) => (false, i.name.clone()),
            RSym::T(i) => (true, i.name.clone()),
        })
        .collect()
}

pub fn violations(items: &[RItem]) -> Vec<Violation> {
    let mut v = vec![];
    let starts: Vec<&RIdent> = items.iter().filter_map(|i| if let RItem::Start(s) = i { Some(s) } else { None }).collect();
    if starts.is_empty() {
        v.push(Violation::NoStart);
    }
    if starts.len() > 1 {
        v.push(Violation::MultipleStart(starts.iter().map(|s| s.pos).collect()));
    }
    let mut term_enum_names: Vec<&RIdent> = vec![];
    let mut term_variants: Vec<&RIdent> = vec![];
    let mut nt_names: Vec<&RIdent> = vec![];
    for it in items {
        match it {
            RItem::Terminal { name, variants, .. } => {
                term_enum_names.push(name);
                for (n, _) in variants {
                    term_variants.push(n);
                }
            }
            RItem::Struct { name, .. } | RItem::Enum { name, .. } => nt_names.push(name),
            RItem::Start(_) => {}
        }
    }
    if term_enum_names.is_empty() {
        v.push(Violation::NoTerminalEnum);
    }
    if term_enum_names.len() > 1 {
        v.push(Violation::MultipleTerminalEnums(term_enum_names.iter().map(|s| s.pos).collect()));
    }
    let upper = |id: &RIdent, v: &mut Vec<Violation>| {
        if let Some(c) = first_letter(&id.name) {
            if !c.is_ascii_uppercase() {
                v.push(Violation::NotUppercase(id.pos));
            }
        }
    };
    for id in term_enum_names.iter().chain(term_variants.iter()).chain(nt_names.iter()) {
        upper(id, &mut v);
    }
    let is_nt = |n: &str| nt_names.iter().any(|x| x.name == n);
    let is_t = |n: &str| term_variants.iter().any(|x| x.name == n);
    let check_fieldset = |fs: &RFieldset, v: &mut Vec<Violation>| {
        for f in fs.fields() {
            if let Some(n) = &f.name {
                if let Some(c) = first_letter(&n.name) {
                    if !c.is_ascii_lowercase() {
                        v.push(Violation::NotLowercase(n.pos));
                    }
                }
            }
            match &f.sym {
                RSym::N(i) => {
                    if !is_nt(&i.name) {
                        v.push(Violation::UndefinedNonterminal(i.name.clone(), i.pos));
                    }
                }
                RSym::T(i) => {
                    if !is_t(&i.name) {
                        v.push(Violation::UndefinedTerminal(i.name.clone(), i.pos));
                    }
                }
            }
        }
    };
    for it in items {
        match it {
            RItem::Struct { fieldset, .. } => check_fieldset(fieldset, &mut v),
            RItem::Enum { variants, .. } => {
                for (i, (vn, fs)) in variants.iter().enumerate() {
                    upper(vn, &mut v);
                    check_fieldset(fs, &mut v);
                    if v.len() > MAX_LISTED {
                        v.push(Violation::TooMany);
                        return v;
                    }
                    for (wn, ws) in variants.iter().take(i) {
                        if wn.name == vn.name {
                            v.push(Violation::VariantNameClash(vn.name.clone(), wn.pos, vn.pos));
                        }
                        if seq_of(ws) == seq_of(fs) {
                            v.push(Violation::VariantSeqClash(seq_of(fs), wn.pos, vn.pos));
                        }
                    }
                }
            }
            _ => {}
        }
    }
    for s in &starts {
        if !is_nt(&s.name) {
            v.push(Violation::UndefinedNonterminal(s.name.clone(), s.pos));
        }
    }
    let defs: Vec<&RIdent> = nt_names.iter().chain(term_variants.iter()).chain(term_enum_names.iter()).copied().collect();
    for (i, a) in defs.iter().enumerate() {
        if v.len() > MAX_LISTED {
            v.push(Violation::TooMany);
            return v;
        }
        for b in defs.iter().take(i) {
            if a.name == b.name && a.pos != b.pos {
                v.push(Violation::NameClash(a.name.clone(), a.pos.min(b.pos), a.pos.max(b.pos)));
            }
        }
    }
    v.sort();
    v.dedup();
    v
}

/// Does the validation error `e` describe one of the violations really present?
pub fn truthful(e: &KikiErr, present: &[Violation]) -> bool {
    let subset_of = |ps: &[kiki::ByteIndex], all: &[usize]| {
        let mut d: Vec<usize> = ps.iter().map(|p| p.0).collect();
        d.sort();
        d.dedup();
        d.len() == ps.len() && ps.len() >= 2 && ps.iter().all(|p| all.contains(&p.0))
    };
    match e {
        KikiErr::NoStartSymbol => present.contains(&Violation::NoStart),
        KikiErr::NoTerminalEnum => present.contains(&Violation::NoTerminalEnum),
        KikiErr::MultipleStartSymbols(ps) => present.iter().any(|v| matches!(v, Violation::MultipleStart(all) if subset_of(ps, all))),
        KikiErr::MultipleTerminalEnums(ps) => present.iter().any(|v| matches!(v, Violation::MultipleTerminalEnums(all) if subset_of(ps, all))),
        KikiErr::SymbolOrTerminalEnumNameFirstLetterNotUppercase(p) => present.contains(&Violation::NotUppercase(p.0)),
        KikiErr::FieldFirstLetterNotLowercase(p) => present.contains(&Violation::NotLowercase(p.0)),
        KikiErr::NameClash(n, p, q) => p != q && present.contains(&Violation::NameClash(n.clone(), p.0.min(q.0), p.0.max(q.0))),
        KikiErr::NonterminalEnumVariantNameClash(n, p, q) => {
            p != q && present.contains(&Violation::VariantNameClash(n.clone(), p.0.min(q.0), p.0.max(q.0)))
        }
        KikiErr::NonterminalEnumVariantSymbolSequenceClash(seq, p, q) => {
            let s: Vec<(bool, String)> = seq
                .iter()
                .map(|s| match s {
                    kiki::Symbol::Terminal(t) => (true, t.raw().to_string()),
                    kiki::Symbol::Nonterminal(n) => (false, n.clone()),
                })
                .collect();
            p != q && present.contains(&Violation::VariantSeqClash(s, p.0.min(q.0), p.0.max(q.0)))
        }
        KikiErr::UndefinedNonterminal(n, p) => present.contains(&Violation::UndefinedNonterminal(n.clone(), p.0)),
        KikiErr::UndefinedTerminal(n, p) => present.contains(&Violation::UndefinedTerminal(n.raw().to_string(), p.0)),
        KikiErr::Lex(..) | KikiErr::Parse(..) | KikiErr::TableConflict(_) => false,
    }
}
