//! Expected vs. emitted item shapes (used by C06 and C13): what the emitted
//! type definitions must look like for a model, and a reader for what they do
//! look like (on top of the token-level skim).

use crate::model::*;
use crate::skim::{self, Item, ItemKind, Tok};

#[derive(Clone, Debug, PartialEq, Eq)]
pub struct FieldShape {
    pub name: Option<String>,
    pub is_pub: bool,
    /// Token texts of the type.
    pub ty: Vec<String>,
}

#[derive(Clone, Debug, PartialEq, Eq)]
pub enum BodyShape {
    Unit,
    Tuple(Vec<FieldShape>),
    Named(Vec<FieldShape>),
}

#[derive(Clone, Debug, PartialEq, Eq)]
pub enum TypeShape {
    Struct(BodyShape),
    Enum(Vec<(String, BodyShape)>),
}

pub fn type_tokens(t: &TypeExpr) -> Vec<String> {
    let mut v = vec![];
    t.tokens(&mut v);
    v
}

fn field_type(m: &Model, s: Sym) -> Vec<String> {
    match s {
        Sym::N(i) => vec!["Box".into(), "<".into(), m.nts[i].name.clone(), ">".into()],
        Sym::T(i) => type_tokens(&m.terms[i].ty),
    }
}

/// The body the emitted type must have for a production.  `in_struct`: struct fields are public.
pub fn expected_body(m: &Model, p: &Prod, in_struct: bool) -> BodyShape {
    if !p.any_used() {
        return BodyShape::Unit;
    }
    let fields: Vec<FieldShape> = p
        .fields
        .iter()
        .filter(|f| f.used)
        .map(|f| FieldShape {
            name: if p.style == Style::Named { Some(f.name.clone()) } else { None },
            is_pub: in_struct,
            ty: field_type(m, f.sym),
        })
        .collect();
    match p.style {
        Style::Named => BodyShape::Named(fields),
        Style::Tuple => BodyShape::Tuple(fields),
        Style::Empty => BodyShape::Unit,
    }
}

pub fn expected_type(m: &Model, i: usize) -> TypeShape {
    let nt = &m.nts[i];
    if nt.is_enum {
        TypeShape::Enum(nt.prods.iter().map(|p| (p.name.clone(), expected_body(m, p, false))).collect())
    } else {
        TypeShape::Struct(expected_body(m, &nt.prods[0], true))
    }
}

pub fn expected_terminal_enum(m: &Model) -> TypeShape {
    TypeShape::Enum(
        m.terms
            .iter()
            .map(|t| {
                (
                    t.name.clone(),
                    BodyShape::Tuple(vec![FieldShape {
                        name: None,
                        is_pub: false,
                        ty: type_tokens(&t.ty),
                    }]),
                )
            })
            .collect(),
    )
}

fn texts(t: &[Tok]) -> Vec<String> {
    t.iter().map(|x| x.text()).collect()
}

fn read_fields(toks: &[Tok], named: bool) -> Result<Vec<FieldShape>, String> {
    let mut out = vec![];
    for f in skim::split_commas(toks) {
        let mut f = f.as_slice();
        let mut is_pub = false;
        if f.first().map(|t| t.is_ident("pub")).unwrap_or(false) {
            is_pub = true;
            f = &f[1..];
            // a restricted visibility (`pub(crate)` ...) is not `pub`
            let restricted = f.first().map(|t| t.is_p("(")).unwrap_or(false)
                && f.get(1).map(|t| ["crate", "super", "self", "in"].iter().any(|k| t.is_ident(k))).unwrap_or(false);
            if restricted {
                if let Some(close) = f.iter().position(|t| t.is_p(")")) {
                    is_pub = false;
                    f = &f[close + 1..];
                }
            }
        }
        if named {
            match f {
                [Tok::Ident(n), Tok::P(":"), rest @ ..] if !rest.is_empty() => out.push(FieldShape {
                    name: Some(n.clone()),
                    is_pub,
                    ty: texts(rest),
                }),
                _ => return Err(format!("unreadable named field: {}", skim::toks_text(f))),
            }
        } else {
            if f.is_empty() {
                return Err("empty tuple field".into());
            }
            out.push(FieldShape {
                name: None,
                is_pub,
                ty: texts(f),
            });
        }
    }
    Ok(out)
}

pub fn read_struct(item: &Item) -> Result<TypeShape, String> {
    if item.kind != ItemKind::Struct {
        return Err(format!("{} is not a struct", item.name));
    }
    if !item.header.is_empty() {
        return Err(format!("struct {} has generics or a where clause", item.name));
    }
    Ok(TypeShape::Struct(match item.body_delim {
        ';' => BodyShape::Unit,
        '(' => BodyShape::Tuple(read_fields(&item.body, false)?),
        '{' => BodyShape::Named(read_fields(&item.body, true)?),
        _ => return Err("unreadable struct body".into()),
    }))
}

pub fn read_enum(item: &Item) -> Result<TypeShape, String> {
    if item.kind != ItemKind::Enum {
        return Err(format!("{} is not an enum", item.name));
    }
    if !item.header.is_empty() {
        return Err(format!("enum {} has generics or a where clause", item.name));
    }
    let mut out = vec![];
    for v in skim::split_commas(&item.body) {
        match v.as_slice() {
            [Tok::Ident(n)] => out.push((n.clone(), BodyShape::Unit)),
            [Tok::Ident(n), Tok::P("("), inner @ .., Tok::P(")")] => out.push((n.clone(), BodyShape::Tuple(read_fields(inner, false)?))),
            [Tok::Ident(n), Tok::P("{"), inner @ .., Tok::P("}")] => out.push((n.clone(), BodyShape::Named(read_fields(inner, true)?))),
            _ => return Err(format!("unreadable variant of {}: {}", item.name, skim::toks_text(&v))),
        }
    }
    Ok(TypeShape::Enum(out))
}

/// All public items with the given name and kind struct/enum.
pub fn find_type<'a>(items: &'a [Item], name: &str) -> Vec<&'a Item> {
    items
        .iter()
        .filter(|i| (i.kind == ItemKind::Struct || i.kind == ItemKind::Enum) && i.name == name)
        .collect()
}

/// Check the `parse` signature:
/// `pub fn parse<X>(src: X) -> Result<Start, Option<Terminal>> where X: IntoIterator<Item = Terminal>`
/// (the bound may equally be written inline in the generics).
pub fn check_parse_signature(items: &[Item], start: &str, terminal: &str) -> Result<(), String> {
    let fns: Vec<&Item> = items.iter().filter(|i| i.kind == ItemKind::Fn && i.name == "parse").collect();
    let [f] = fns.as_slice() else {
        return Err(format!("{} functions named parse", fns.len()));
    };
    if !f.is_pub {
        return Err("parse is not pub".into());
    }
    let h = &f.header;
    // generics: < X > or < X : IntoIterator < Item = T > >
    if !h.first().map(|t| t.is_p("<")).unwrap_or(false) {
        return Err("parse has no type parameter".into());
    }
    let Some(Tok::Ident(param)) = h.get(1) else {
        return Err("unreadable type parameter".into());
    };
    let bound = [
        Tok::Ident("IntoIterator".into()),
        Tok::P("<"),
        Tok::Ident("Item".into()),
        Tok::P("="),
        Tok::Ident(terminal.into()),
        Tok::P(">"),
    ];
    let mut i = 2;
    let mut bound_seen = false;
    if h.get(i).map(|t| t.is_p(":")).unwrap_or(false) {
        if h.get(i + 1..i + 1 + bound.len()) != Some(&bound[..]) {
            return Err("unexpected inline bound on the type parameter".into());
        }
        bound_seen = true;
        i += 1 + bound.len();
    }
    if !h.get(i).map(|t| t.is_p(">")).unwrap_or(false) {
        return Err("parse must have exactly one type parameter".into());
    }
    i += 1;
    // ( name : X )
    match h.get(i..i + 5) {
        Some([Tok::P("("), Tok::Ident(_), Tok::P(":"), Tok::Ident(p), Tok::P(")")]) if p == param => {}
        _ => return Err("parse must take exactly one argument of the parameter type".into()),
    }
    i += 5;
    let ret = [
        Tok::P("->"),
        Tok::Ident("Result".into()),
        Tok::P("<"),
        Tok::Ident(start.into()),
        Tok::P(","),
        Tok::Ident("Option".into()),
        Tok::P("<"),
        Tok::Ident(terminal.into()),
        Tok::P(">"),
        Tok::P(">"),
    ];
    if h.get(i..i + ret.len()) != Some(&ret[..]) {
        return Err(format!("unexpected return type: {}", skim::toks_text(&h[i.min(h.len())..])));
    }
    i += ret.len();
    if i < h.len() {
        // where X : IntoIterator < Item = T >
        let mut w = vec![Tok::Ident("where".into()), Tok::Ident(param.clone()), Tok::P(":")];
        w.extend_from_slice(&bound);
        let rest: Vec<Tok> = h[i..].iter().filter(|t| !t.is_p(",")).cloned().collect();
        if rest != w {
            return Err(format!("unexpected where clause: {}", skim::toks_text(&h[i..])));
        }
        bound_seen = true;
    }
    if !bound_seen {
        return Err("the type parameter is not bounded by IntoIterator<Item = terminal enum>".into());
    }
    Ok(())
}

fn erase_visibility(t: &mut TypeShape) {
    let erase = |b: &mut BodyShape| {
        if let BodyShape::Tuple(f) | BodyShape::Named(f) = b {
            for x in f.iter_mut() {
                x.is_pub = false;
            }
        }
    };
    match t {
        TypeShape::Struct(b) => erase(b),
        TypeShape::Enum(v) => v.iter_mut().for_each(|(_, b)| erase(b)),
    }
}

/// Compare all emitted type definitions with the model.
/// `with_visibility`: also require `pub` on struct fields (C06); C13 only looks at the types.
pub fn check_type_definitions(items: &[Item], m: &Model, with_visibility: bool) -> Result<usize, String> {
    let mut checked = 0;
    // terminal enum
    let found = find_type(items, &m.term_enum);
    let [t] = found.as_slice() else {
        return Err(format!("{} definitions of the terminal enum {}", found.len(), m.term_enum));
    };
    if !t.is_pub {
        return Err("terminal enum is not pub".into());
    }
    let got = read_enum(t)?;
    let exp = expected_terminal_enum(m);
    if got != exp {
        return Err(format!("terminal enum differs: expected {exp:?}, emitted {got:?}"));
    }
    checked += 1;
    for (i, nt) in m.nts.iter().enumerate() {
        let found = find_type(items, &nt.name);
        let [it] = found.as_slice() else {
            return Err(format!("{} definitions of nonterminal type {}", found.len(), nt.name));
        };
        if !it.is_pub {
            return Err(format!("type {} is not pub", nt.name));
        }
        let mut got = if nt.is_enum { read_enum(it) } else { read_struct(it) }.map_err(|e| format!("{}: {e}", nt.name))?;
        let mut exp = expected_type(m, i);
        if !with_visibility {
            erase_visibility(&mut got);
            erase_visibility(&mut exp);
        }
        if got != exp {
            return Err(format!("type {} differs: expected {exp:?}, emitted {got:?}", nt.name));
        }
        checked += 1;
    }
    Ok(checked)
}
