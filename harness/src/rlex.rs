//! R-lex: the documented lexical grammar of Kiki as a direct scanner.
//! Written from USER_GUIDE.md and the property statement; no code from kiki.

#[derive(Clone, Copy, Debug, PartialEq, Eq, Hash, PartialOrd, Ord)]
pub enum K {
    Underscore,
    Ident,
    TerminalIdent,
    Attr,
    StartKw,
    StructKw,
    EnumKw,
    TerminalKw,
    Colon,
    DoubleColon,
    Comma,
    LParen,
    RParen,
    LCurly,
    RCurly,
    LAngle,
    RAngle,
}

pub const ALL_KINDS: [K; 17] = [
    K::Underscore,
    K::Ident,
    K::TerminalIdent,
    K::Attr,
    K::StartKw,
    K::StructKw,
    K::EnumKw,
    K::TerminalKw,
    K::Colon,
    K::DoubleColon,
    K::Comma,
    K::LParen,
    K::RParen,
    K::LCurly,
    K::RCurly,
    K::LAngle,
    K::RAngle,
];

impl K {
    pub fn index(&self) -> usize {
        ALL_KINDS.iter().position(|k| k == self).unwrap()
    }
    pub fn name(&self) -> &'static str {
        match self {
            K::Underscore => "_",
            K::Ident => "ident",
            K::TerminalIdent => "$ident",
            K::Attr => "#[attr]",
            K::StartKw => "start",
            K::StructKw => "struct",
            K::EnumKw => "enum",
            K::TerminalKw => "terminal",
            K::Colon => ":",
            K::DoubleColon => "::",
            K::Comma => ",",
            K::LParen => "(",
            K::RParen => ")",
            K::LCurly => "{",
            K::RCurly => "}",
            K::LAngle => "<",
            K::RAngle => ">",
        }
    }
    /// Fixed spelling, if the kind has one.
    pub fn fixed_text(&self) -> Option<&'static str> {
        match self {
            K::Ident | K::TerminalIdent | K::Attr => None,
            k => Some(k.name()),
        }
    }
}

#[derive(Clone, Copy, Debug, PartialEq, Eq)]
pub struct RTok {
    pub kind: K,
    pub start: usize,
    pub end: usize,
}

#[derive(Clone, Debug, PartialEq, Eq)]
pub struct LexError {
    pub index: usize,
    pub ch: Option<char>,
    /// Tokens recognised before the error.
    pub tokens_before: usize,
    pub site: &'static str,
}

fn id_start(c: char) -> bool {
    c.is_ascii_alphabetic() || c == '_'
}
fn id_cont(c: char) -> bool {
    c.is_ascii_alphanumeric() || c == '_'
}

fn reserved(w: &str) -> Option<K> {
    match w {
        "_" => Some(K::Underscore),
        "start" => Some(K::StartKw),
        "struct" => Some(K::StructKw),
        "enum" => Some(K::EnumKw),
        "terminal" => Some(K::TerminalKw),
        _ => None,
    }
}

pub fn lex(s: &str) -> Result<Vec<RTok>, LexError> {
    match lex_partial(s) {
        (t, None) => Ok(t),
        (_, Some(e)) => Err(e),
    }
}

/// The tokens recognised before the first lexical error (if any), and that error.
pub fn lex_partial(s: &str) -> (Vec<RTok>, Option<LexError>) {
    let chars: Vec<(usize, char)> = s.char_indices().collect();
    let n = chars.len();
    let pos = |i: usize| if i < n { chars[i].0 } else { s.len() };
    let ch = |i: usize| if i < n { Some(chars[i].1) } else { None };
    let mut toks: Vec<RTok> = vec![];
    let mut i = 0;
    macro_rules! fail {
        ($idx:expr, $c:expr, $site:expr) => {{
            let e = LexError {
                index: $idx,
                ch: $c,
                tokens_before: toks.len(),
                site: $site,
            };
            return (toks, Some(e));
        }};
    }
    while i < n {
        let c = chars[i].1;
        if c.is_whitespace() {
            i += 1;
            continue;
        }
        if c == '/' {
            if ch(i + 1) == Some('/') {
                while i < n && chars[i].1 != '\n' {
                    i += 1;
                }
                continue;
            }
            fail!(pos(i), Some('/'), "lone-slash");
        }
        if id_start(c) {
            let mut j = i + 1;
            while j < n && id_cont(chars[j].1) {
                j += 1;
            }
            let w = &s[pos(i)..pos(j)];
            toks.push(RTok {
                kind: reserved(w).unwrap_or(K::Ident),
                start: pos(i),
                end: pos(j),
            });
            i = j;
            continue;
        }
        if c == '$' {
            if ch(i + 1).map(id_start).unwrap_or(false) {
                let mut j = i + 2;
                while j < n && id_cont(chars[j].1) {
                    j += 1;
                }
                let w = &s[pos(i + 1)..pos(j)];
                if reserved(w).is_some() {
                    // position just past the word; the character there, or None at end of text
                    fail!(pos(j), ch(j), "reserved-word-after-dollar");
                }
                toks.push(RTok {
                    kind: K::TerminalIdent,
                    start: pos(i),
                    end: pos(j),
                });
                i = j;
                continue;
            }
            fail!(pos(i), Some('$'), "lone-dollar");
        }
        if c == ':' {
            if ch(i + 1) == Some(':') {
                toks.push(RTok {
                    kind: K::DoubleColon,
                    start: pos(i),
                    end: pos(i + 2),
                });
                i += 2;
            } else {
                toks.push(RTok {
                    kind: K::Colon,
                    start: pos(i),
                    end: pos(i + 1),
                });
                i += 1;
            }
            continue;
        }
        if c == '#' {
            if ch(i + 1) != Some('[') {
                fail!(pos(i), Some('#'), "lone-pound");
            }
            let mut stack: Vec<char> = vec![];
            let mut j = i + 1;
            loop {
                let Some(cj) = ch(j) else {
                    fail!(s.len(), None, "attribute-unterminated-at-eof");
                };
                match cj {
                    '\n' => fail!(pos(j), Some('\n'), "newline-in-attribute"),
                    '(' | '[' | '{' => stack.push(cj),
                    ')' | ']' | '}' => {
                        let open = stack.pop().expect("attribute stack is never empty here");
                        let ok = matches!((open, cj), ('(', ')') | ('[', ']') | ('{', '}'));
                        if !ok {
                            fail!(pos(j), Some(cj), "mismatched-closer-in-attribute");
                        }
                        if stack.is_empty() {
                            break;
                        }
                    }
                    _ => {}
                }
                j += 1;
            }
            toks.push(RTok {
                kind: K::Attr,
                start: pos(i),
                end: pos(j + 1),
            });
            i = j + 1;
            continue;
        }
        let kind = match c {
            ',' => Some(K::Comma),
            '(' => Some(K::LParen),
            ')' => Some(K::RParen),
            '{' => Some(K::LCurly),
            '}' => Some(K::RCurly),
            '<' => Some(K::LAngle),
            '>' => Some(K::RAngle),
            _ => None,
        };
        match kind {
            Some(k) => {
                toks.push(RTok {
                    kind: k,
                    start: pos(i),
                    end: pos(i + 1),
                });
                i += 1;
            }
            None => fail!(pos(i), Some(c), "stray-character"),
        }
    }
    (toks, None)
}

/// Render a kiki token as (kind, start, text) for comparison with the reference.
pub fn kiki_token_view(t: &kiki::data::token::Token) -> (K, usize, String) {
    use kiki::data::token::Token as T;
    match t {
        T::Underscore(p) => (K::Underscore, p.0, "_".into()),
        T::Ident(i) => (K::Ident, i.position.0, i.name.clone()),
        T::TerminalIdent(i) => (K::TerminalIdent, i.dollarless_position.0.wrapping_sub(1), format!("${}", i.name.raw())),
        T::OuterAttribute(a) => (K::Attr, a.position.0, a.src.clone()),
        T::StartKw(p) => (K::StartKw, p.0, "start".into()),
        T::StructKw(p) => (K::StructKw, p.0, "struct".into()),
        T::EnumKw(p) => (K::EnumKw, p.0, "enum".into()),
        T::TerminalKw(p) => (K::TerminalKw, p.0, "terminal".into()),
        T::Colon(p) => (K::Colon, p.0, ":".into()),
        T::DoubleColon(p) => (K::DoubleColon, p.0, "::".into()),
        T::Comma(p) => (K::Comma, p.0, ",".into()),
        T::LParen(p) => (K::LParen, p.0, "(".into()),
        T::RParen(p) => (K::RParen, p.0, ")".into()),
        T::LCurly(p) => (K::LCurly, p.0, "{".into()),
        T::RCurly(p) => (K::RCurly, p.0, "}".into()),
        T::LAngle(p) => (K::LAngle, p.0, "<".into()),
        T::RAngle(p) => (K::RAngle, p.0, ">".into()),
    }
}
