//! Small utilities: panic capture, resource limits for children, scratch dirs.

use serde_json::Value;
use std::cell::RefCell;
use std::os::unix::process::CommandExt;
use std::path::PathBuf;
use std::process::Command;

thread_local! {
    static LAST_PANIC: RefCell<Option<String>> = const { RefCell::new(None) };
}

/// Panics are recorded (message @ file:line) instead of printed.
pub fn install_silent_panic_hook() {
    std::panic::set_hook(Box::new(|info| {
        let msg = if let Some(s) = info.payload().downcast_ref::<&str>() {
            s.to_string()
        } else if let Some(s) = info.payload().downcast_ref::<String>() {
            s.clone()
        } else {
            "<non-string panic payload>".to_string()
        };
        let loc = info
            .location()
            .map(|l| format!("{}:{}", l.file(), l.line()))
            .unwrap_or_else(|| "?".to_string());
        LAST_PANIC.with(|p| *p.borrow_mut() = Some(format!("{msg} @ {loc}")));
    }));
}

#[derive(Debug, Clone)]
pub struct PanicInfo {
    pub message: String,
    pub location: String,
}

impl PanicInfo {
    /// `file:line` with the checkout prefix stripped, usable as a signature.
    pub fn site(&self) -> String {
        let l = self.location.as_str();
        match l.find("kiki/src/") {
            Some(i) => l[i..].to_string(),
            None => l.to_string(),
        }
    }
}

pub fn catch<T>(f: impl FnOnce() -> T) -> Result<T, PanicInfo> {
    LAST_PANIC.with(|p| *p.borrow_mut() = None);
    match std::panic::catch_unwind(std::panic::AssertUnwindSafe(f)) {
        Ok(v) => Ok(v),
        Err(_) => {
            let s = LAST_PANIC.with(|p| p.borrow_mut().take()).unwrap_or_default();
            let (message, location) = match s.rsplit_once(" @ ") {
                Some((m, l)) => (m.to_string(), l.to_string()),
                None => (s, "?".to_string()),
            };
            Err(PanicInfo { message, location })
        }
    }
}

pub fn limit_address_space(cmd: &mut Command, bytes: u64) {
    unsafe {
        cmd.pre_exec(move || {
            let lim = libc::rlimit {
                rlim_cur: bytes as libc::rlim_t,
                rlim_max: bytes as libc::rlim_t,
            };
            libc::setrlimit(libc::RLIMIT_AS, &lim);
            // no core dumps
            let z = libc::rlimit { rlim_cur: 0, rlim_max: 0 };
            libc::setrlimit(libc::RLIMIT_CORE, &z);
            Ok(())
        });
    }
}

pub fn limit_cpu_and_memory(cmd: &mut Command, cpu_s: u64, bytes: u64) {
    unsafe {
        cmd.pre_exec(move || {
            let lim = libc::rlimit {
                rlim_cur: cpu_s as libc::rlim_t,
                rlim_max: (cpu_s + 2) as libc::rlim_t,
            };
            libc::setrlimit(libc::RLIMIT_CPU, &lim);
            let lim = libc::rlimit {
                rlim_cur: bytes as libc::rlim_t,
                rlim_max: bytes as libc::rlim_t,
            };
            libc::setrlimit(libc::RLIMIT_AS, &lim);
            let z = libc::rlimit { rlim_cur: 0, rlim_max: 0 };
            libc::setrlimit(libc::RLIMIT_CORE, &z);
            Ok(())
        });
    }
}

pub fn make_scratch_dir(name: &str) -> PathBuf {
    let base = std::env::var("KV_SCRATCH")
        .map(PathBuf::from)
        .unwrap_or_else(|_| std::env::temp_dir());
    let nanos = std::time::SystemTime::now()
        .duration_since(std::time::UNIX_EPOCH)
        .map(|d| d.subsec_nanos())
        .unwrap_or(0);
    // scratch directories of runs that were killed: kv-<prop>-<pid>-<nanos> whose process is gone
    if let Ok(rd) = std::fs::read_dir(&base) {
        for e in rd.flatten() {
            let n = e.file_name().to_string_lossy().to_string();
            let parts: Vec<&str> = n.split('-').collect();
            if parts.len() == 4 && parts[0] == "kv" && parts[1].starts_with('C') {
                if let Ok(pid) = parts[2].parse::<u32>() {
                    if !std::path::Path::new(&format!("/proc/{pid}")).exists() {
                        let _ = std::fs::remove_dir_all(e.path());
                    }
                }
            }
        }
    }
    let p = base.join(format!("{name}-{nanos}"));
    std::fs::create_dir_all(&p).expect("create scratch dir");
    p
}

/// Signature of a worker death: how it died, plus a structural class of the input.
pub fn abort_signature(how: &str, stderr_tail: &str, desc: &Value) -> String {
    let kind = if stderr_tail.contains("has overflowed its stack") || stderr_tail.contains("stack overflow") {
        "stack-overflow"
    } else if stderr_tail.contains("memory allocation") {
        "alloc-failure"
    } else if how.starts_with("cpu budget") {
        "cpu-budget"
    } else if how.starts_with("signal") {
        "signal"
    } else {
        "exit"
    };
    let class = desc["class"].as_str().unwrap_or("unclassified");
    format!("abort:{kind}:{class}")
}

pub fn truncate(s: &str, n: usize) -> String {
    if s.len() <= n {
        s.to_string()
    } else {
        let mut end = n;
        while !s.is_char_boundary(end) {
            end -= 1;
        }
        format!("{}…[{} bytes total]", &s[..end], s.len())
    }
}
