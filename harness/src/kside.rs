//! The only place where kiki is called.  Calls *record* outcomes; the
//! comparisons with the reference models live in the engines.

use crate::lr::{Automaton, Core, ItemSet};
use crate::model::{Model, Sym};
use crate::util::{catch, PanicInfo};
use kiki::data::machine::{Lookahead, Machine, RuleIndex, StateItem};
use kiki::{KikiErr, Symbol};
use std::collections::BTreeMap;

pub enum GenOutcome {
    Ok(String),
    Err(KikiErr),
    Panic(PanicInfo),
}

impl GenOutcome {
    pub fn class(&self) -> String {
        match self {
            GenOutcome::Ok(_) => "Ok".to_string(),
            GenOutcome::Err(e) => err_kind(e).to_string(),
            GenOutcome::Panic(_) => "PANIC".to_string(),
        }
    }
    pub fn render(&self) -> String {
        match self {
            GenOutcome::Ok(s) => format!("Ok({} bytes)", s.len()),
            GenOutcome::Err(e) => crate::util::truncate(&format!("{e:?}"), 600),
            GenOutcome::Panic(p) => format!("PANIC {} @ {}", p.message, p.location),
        }
    }
}

#[derive(Clone, Copy, Debug, Default)]
pub struct HookCounters {
    pub ticks: [u64; 4],
    pub oset_checks: u64,
}

/// `kiki::generate` under catch_unwind with the H2 step limit armed.
pub fn generate(src: &str, step_limit: u64) -> (GenOutcome, HookCounters) {
    kiki::verif_hooks::reset(step_limit);
    let r = catch(|| kiki::generate(src));
    let hc = HookCounters {
        ticks: kiki::verif_hooks::ticks(),
        oset_checks: kiki::verif_hooks::oset_checks(),
    };
    kiki::verif_hooks::reset(u64::MAX);
    let out = match r {
        Ok(Ok(s)) => GenOutcome::Ok(s.0),
        Ok(Err(e)) => GenOutcome::Err(e),
        Err(p) => GenOutcome::Panic(p),
    };
    (out, hc)
}

/// A process environment like the one a Cargo build script runs in (kiki's documented place of use is
/// a `build.rs`), with plausible values drawn at random, plus every environment variable whose name
/// occurs in kiki's own sources next to an `env::var` / `env!` call.  `generate` is specified as a function
/// of its text: none of this may matter.
pub fn build_script_env(rng: &mut crate::rng::Rng) -> Vec<(String, String)> {
    let mut v: Vec<(String, String)> = vec![];
    let mut put = |k: &str, vals: &[&str], rng: &mut crate::rng::Rng| {
        if rng.chance(0.8) {
            v.push((k.to_string(), rng.pick_str(vals).to_string()));
        }
    };
    put("OPT_LEVEL", &["0", "1", "2", "3", "s", "z"], rng);
    put("PROFILE", &["debug", "release"], rng);
    put("DEBUG", &["true", "false", "0", "1", "2"], rng);
    put("TARGET", &["x86_64-unknown-linux-gnu", "wasm32-unknown-unknown", "thumbv7em-none-eabihf", "x86_64-pc-windows-msvc"], rng);
    put("HOST", &["x86_64-unknown-linux-gnu", "aarch64-apple-darwin"], rng);
    put("OUT_DIR", &["/tmp/kv-out", "C:\\out", ""], rng);
    put("NUM_JOBS", &["1", "16"], rng);
    put("CARGO_CFG_TARGET_OS", &["linux", "windows", "none", "macos"], rng);
    put("CARGO_CFG_TARGET_POINTER_WIDTH", &["64", "32", "16"], rng);
    put("CARGO_CFG_TARGET_ENDIAN", &["little", "big"], rng);
    put("CARGO_CFG_DEBUG_ASSERTIONS", &["", "1"], rng);
    put("CARGO_PKG_NAME", &["demo", "kiki"], rng);
    put("CARGO_PKG_VERSION", &["0.1.0", "9.9.9-rc.1"], rng);
    put("CARGO_MANIFEST_DIR", &["/tmp/kv-demo"], rng);
    put("CARGO_FEATURE_STD", &["1"], rng);
    put("CARGO_ENCODED_RUSTFLAGS", &["", "-Copt-level=z"], rng);
    put("RUSTFLAGS", &["", "-C opt-level=s", "-D warnings"], rng);
    put("RUST_BACKTRACE", &["0", "1", "full"], rng);
    put("RUST_LOG", &["debug", "trace", "kiki=trace"], rng);
    put("NO_COLOR", &["1"], rng);
    put("TERM", &["dumb", "xterm-256color"], rng);
    put("LANG", &["C", "en_US.UTF-8", "tr_TR.UTF-8", "de_DE.ISO-8859-1"], rng);
    put("LC_ALL", &["C", "tr_TR.UTF-8"], rng);
    put("TZ", &["UTC", "Asia/Kolkata"], rng);
    put("SOURCE_DATE_EPOCH", &["0", "1700000000"], rng);
    put("CI", &["true"], rng);
    put("DOCS_RS", &["1"], rng);
    put("HOME", &["/nonexistent", "/root"], rng);
    let d = crate::gtext::repo_dictionary();
    const VALUES: &[&str] = &["", "0", "1", "2", "true", "false", "s", "z", "debug", "release", "Debug", "Debug,PartialEq", "Clone, Debug", "yes", "no", "all", "x", "on", "off"];
    for name in &d.env_vars {
        if name.chars().all(|c| c.is_ascii_alphanumeric() || c == '_') {
            let val = if !d.literals.is_empty() && rng.chance(0.2) { rng.pick(&d.literals).clone() } else { rng.pick_str(VALUES).to_string() };
            v.push((name.clone(), val));
        }
    }
    v
}

/// `generate` with the given variables set in the process environment (restored afterwards).  Only
/// called where no other thread of the process is running.
pub fn generate_in_env(src: &str, step_limit: u64, env: &[(String, String)]) -> (GenOutcome, HookCounters) {
    let saved: Vec<(String, Option<std::ffi::OsString>)> = env.iter().map(|(k, _)| (k.clone(), std::env::var_os(k))).collect();
    for (k, v) in env {
        std::env::set_var(k, v);
    }
    let r = generate(src, step_limit);
    for (k, old) in saved {
        match old {
            Some(o) => std::env::set_var(&k, o),
            None => std::env::remove_var(&k),
        }
    }
    r
}

pub fn err_kind(e: &KikiErr) -> &'static str {
    match e {
        KikiErr::Lex(..) => "Lex",
        KikiErr::Parse(..) => "Parse",
        KikiErr::NoStartSymbol => "NoStartSymbol",
        KikiErr::MultipleStartSymbols(_) => "MultipleStartSymbols",
        KikiErr::NoTerminalEnum => "NoTerminalEnum",
        KikiErr::MultipleTerminalEnums(_) => "MultipleTerminalEnums",
        KikiErr::SymbolOrTerminalEnumNameFirstLetterNotUppercase(_) => "SymbolOrTerminalEnumNameFirstLetterNotUppercase",
        KikiErr::FieldFirstLetterNotLowercase(_) => "FieldFirstLetterNotLowercase",
        KikiErr::NameClash(..) => "NameClash",
        KikiErr::NonterminalEnumVariantNameClash(..) => "NonterminalEnumVariantNameClash",
        KikiErr::NonterminalEnumVariantSymbolSequenceClash(..) => "NonterminalEnumVariantSymbolSequenceClash",
        KikiErr::UndefinedNonterminal(..) => "UndefinedNonterminal",
        KikiErr::UndefinedTerminal(..) => "UndefinedTerminal",
        KikiErr::TableConflict(_) => "TableConflict",
    }
}

pub fn is_validation_err(e: &KikiErr) -> bool {
    !matches!(e, KikiErr::Lex(..) | KikiErr::Parse(..) | KikiErr::TableConflict(_))
}

pub struct Names {
    pub t: BTreeMap<String, usize>,
    pub n: BTreeMap<String, usize>,
}

impl Names {
    pub fn of(m: &Model) -> Names {
        Names {
            t: m.terms.iter().enumerate().map(|(i, t)| (t.name.clone(), i)).collect(),
            n: m.nts.iter().enumerate().map(|(i, t)| (t.name.clone(), i)).collect(),
        }
    }
    pub fn sym(&self, s: &Symbol) -> Result<Sym, String> {
        match s {
            Symbol::Terminal(t) => self.t.get(t.raw()).map(|i| Sym::T(*i)).ok_or_else(|| format!("unknown terminal {:?}", t.raw())),
            Symbol::Nonterminal(n) => self.n.get(n).map(|i| Sym::N(*i)).ok_or_else(|| format!("unknown nonterminal {n:?}")),
        }
    }
}

pub fn item_core(it: &StateItem, n_rules: usize) -> Result<Core, String> {
    let rule = match it.rule_index {
        RuleIndex::Augmented => n_rules as u32,
        RuleIndex::Original(i) => {
            if i >= n_rules {
                return Err(format!("rule index {i} out of range"));
            }
            i as u32
        }
    };
    Ok(Core {
        rule,
        dot: it.dot as u32,
    })
}

pub fn lookahead_index(l: &Lookahead, names: &Names, nt: usize) -> Result<usize, String> {
    match l {
        Lookahead::Eof => Ok(nt),
        Lookahead::Terminal(t) => names.t.get(t.raw()).copied().ok_or_else(|| format!("unknown lookahead terminal {:?}", t.raw())),
    }
}

/// Convert kiki's public automaton into the reference representation.
pub fn machine_to_automaton(m: &Machine, names: &Names, n_rules: usize, nt: usize) -> Result<Automaton, String> {
    let mut states: Vec<ItemSet> = vec![];
    for st in m.states.iter() {
        let mut map: BTreeMap<Core, crate::lr::La> = BTreeMap::new();
        let mut count = 0;
        for it in st.items.iter() {
            let c = item_core(it, n_rules)?;
            let l = lookahead_index(&it.lookahead, names, nt)?;
            let e = map.entry(c).or_insert(crate::lr::La::EMPTY);
            if e.has(l) {
                return Err("duplicate item in a state".into());
            }
            e.insert(l);
            count += 1;
        }
        let _ = count;
        states.push(map.into_iter().collect());
    }
    let mut trans = vec![BTreeMap::new(); states.len()];
    for t in m.transitions.iter() {
        if t.from.0 >= states.len() || t.to.0 >= states.len() {
            return Err("transition endpoint out of range".into());
        }
        let s = names.sym(&t.symbol)?;
        if trans[t.from.0].insert(s, t.to.0).is_some() {
            return Err(format!("two transitions from state {} on the same symbol", t.from.0));
        }
    }
    if m.start.0 >= states.len() {
        return Err("start state out of range".into());
    }
    Ok(Automaton {
        states,
        trans,
        start: m.start.0,
    })
}

/// Is `b` equal to `a` up to renumbering of states?  States are matched by core.
pub fn automata_isomorphic(reference: &Automaton, other: &Automaton) -> Result<(), String> {
    use crate::lr::cores_of;
    if reference.states.len() != other.states.len() {
        return Err(format!(
            "state counts differ: reference {} vs kiki {}",
            reference.states.len(),
            other.states.len()
        ));
    }
    let mut by_core: BTreeMap<Vec<Core>, usize> = BTreeMap::new();
    for (i, s) in reference.states.iter().enumerate() {
        by_core.insert(cores_of(s), i);
    }
    let mut map = vec![usize::MAX; other.states.len()];
    let mut used = vec![false; reference.states.len()];
    for (j, s) in other.states.iter().enumerate() {
        let c = cores_of(s);
        let Some(i) = by_core.get(&c) else {
            return Err(format!("kiki state {j} has a core no reference state has: {c:?}"));
        };
        if used[*i] {
            return Err(format!("two kiki states share the core of reference state {i}"));
        }
        used[*i] = true;
        map[j] = *i;
        if reference.states[*i] != *s {
            return Err(format!(
                "lookahead sets differ in state {j} (reference state {i}): reference {:?} vs kiki {:?}",
                reference.states[*i], s
            ));
        }
    }
    if map[other.start] != reference.start {
        return Err("start states do not correspond".into());
    }
    for (j, t) in other.trans.iter().enumerate() {
        let rt = &reference.trans[map[j]];
        if rt.len() != t.len() {
            return Err(format!("state {j}: transition counts differ"));
        }
        for (sym, to) in t {
            match rt.get(sym) {
                Some(rto) if *rto == map[*to] => {}
                _ => return Err(format!("state {j}: transition on {sym:?} differs")),
            }
        }
    }
    Ok(())
}
