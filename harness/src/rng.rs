//! Deterministic PRNG (splitmix64 seeding + xoshiro256**).  Every random choice
//! of every engine comes from here, keyed by (VERIF_SEED, tag, case index).

#[derive(Clone, Debug)]
pub struct Rng {
    s: [u64; 4],
}

fn splitmix(x: &mut u64) -> u64 {
    *x = x.wrapping_add(0x9E37_79B9_7F4A_7C15);
    let mut z = *x;
    z = (z ^ (z >> 30)).wrapping_mul(0xBF58_476D_1CE4_E5B9);
    z = (z ^ (z >> 27)).wrapping_mul(0x94D0_49BB_1331_11EB);
    z ^ (z >> 31)
}

pub fn hash_str(s: &str) -> u64 {
    // FNV-1a 64, then one splitmix round.
    let mut h: u64 = 0xcbf2_9ce4_8422_2325;
    for b in s.as_bytes() {
        h ^= *b as u64;
        h = h.wrapping_mul(0x0000_0100_0000_01B3);
    }
    let mut x = h;
    splitmix(&mut x)
}

pub fn hash_bytes(bytes: &[u8]) -> u64 {
    let mut h: u64 = 0xcbf2_9ce4_8422_2325;
    for b in bytes {
        h ^= *b as u64;
        h = h.wrapping_mul(0x0000_0100_0000_01B3);
    }
    let mut x = h;
    splitmix(&mut x)
}

pub fn mix(a: u64, b: u64) -> u64 {
    let mut x = a ^ b.rotate_left(32) ^ 0xA076_1D64_78BD_642F;
    let r = splitmix(&mut x);
    r ^ splitmix(&mut x)
}

impl Rng {
    pub fn new(seed: u64) -> Rng {
        let mut x = seed;
        let s = [
            splitmix(&mut x),
            splitmix(&mut x),
            splitmix(&mut x),
            splitmix(&mut x),
        ];
        Rng { s }
    }

    /// Independent stream for (seed, tag, index).
    pub fn for_case(seed: u64, tag: &str, index: u64) -> Rng {
        Rng::new(mix(mix(seed, hash_str(tag)), index))
    }

    pub fn next_u64(&mut self) -> u64 {
        let result = self.s[1].wrapping_mul(5).rotate_left(7).wrapping_mul(9);
        let t = self.s[1] << 17;
        self.s[2] ^= self.s[0];
        self.s[3] ^= self.s[1];
        self.s[1] ^= self.s[2];
        self.s[0] ^= self.s[3];
        self.s[2] ^= t;
        self.s[3] = self.s[3].rotate_left(45);
        result
    }

    /// Uniform in 0..n (n > 0).
    pub fn below(&mut self, n: usize) -> usize {
        debug_assert!(n > 0);
        ((self.next_u64() as u128 * n as u128) >> 64) as usize
    }

    /// Uniform in lo..=hi.
    pub fn range(&mut self, lo: usize, hi: usize) -> usize {
        lo + self.below(hi - lo + 1)
    }

    pub fn chance(&mut self, p: f64) -> bool {
        ((self.next_u64() >> 11) as f64) * (1.0 / ((1u64 << 53) as f64)) < p
    }

    pub fn f64(&mut self) -> f64 {
        ((self.next_u64() >> 11) as f64) * (1.0 / ((1u64 << 53) as f64))
    }

    pub fn pick<'a, T>(&mut self, xs: &'a [T]) -> &'a T {
        &xs[self.below(xs.len())]
    }

    pub fn pick_str<'a>(&mut self, xs: &[&'a str]) -> &'a str {
        xs[self.below(xs.len())]
    }

    pub fn pick_weighted(&mut self, weights: &[u32]) -> usize {
        let total: u64 = weights.iter().map(|w| *w as u64).sum();
        let mut r = (self.next_u64() as u128 * total as u128 >> 64) as u64;
        for (i, w) in weights.iter().enumerate() {
            if r < *w as u64 {
                return i;
            }
            r -= *w as u64;
        }
        weights.len() - 1
    }

    pub fn shuffle<T>(&mut self, xs: &mut [T]) {
        for i in (1..xs.len()).rev() {
            let j = self.below(i + 1);
            xs.swap(i, j);
        }
    }
}
