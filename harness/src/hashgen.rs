//! `kv mk-hashtwins <out.rs>`: computes, once, identifiers that collide under common 32-bit string
//! hashes (and under std's DefaultHasher truncated to 32 bits, over `str` and over kiki's public
//! name-carrying types), and identifiers whose hash equals that of one of Kiki's reserved words.
//! The result is committed as `hashtwins.rs`; nothing here runs during a check.

use std::collections::HashMap;
use std::hash::{Hash, Hasher};

pub type H = fn(&str) -> u32;

fn fnv1a32(s: &str) -> u32 {
    let mut h: u32 = 0x811c9dc5;
    for b in s.bytes() {
        h ^= b as u32;
        h = h.wrapping_mul(0x01000193);
    }
    h
}
fn fnv1_32(s: &str) -> u32 {
    let mut h: u32 = 0x811c9dc5;
    for b in s.bytes() {
        h = h.wrapping_mul(0x01000193);
        h ^= b as u32;
    }
    h
}
fn fnv1a64_low(s: &str) -> u32 {
    let mut h: u64 = 0xcbf29ce484222325;
    for b in s.bytes() {
        h ^= b as u64;
        h = h.wrapping_mul(0x100000001b3);
    }
    h as u32
}
fn fnv1a64_fold(s: &str) -> u32 {
    let mut h: u64 = 0xcbf29ce484222325;
    for b in s.bytes() {
        h ^= b as u64;
        h = h.wrapping_mul(0x100000001b3);
    }
    (h ^ (h >> 32)) as u32
}
fn djb2(s: &str) -> u32 {
    let mut h: u32 = 5381;
    for b in s.bytes() {
        h = h.wrapping_mul(33).wrapping_add(b as u32);
    }
    h
}
fn djb2a(s: &str) -> u32 {
    let mut h: u32 = 5381;
    for b in s.bytes() {
        h = h.wrapping_mul(33) ^ (b as u32);
    }
    h
}
fn sdbm(s: &str) -> u32 {
    let mut h: u32 = 0;
    for b in s.bytes() {
        h = (b as u32).wrapping_add(h << 6).wrapping_add(h << 16).wrapping_sub(h);
    }
    h
}
fn java31(s: &str) -> u32 {
    let mut h: u32 = 0;
    for b in s.bytes() {
        h = h.wrapping_mul(31).wrapping_add(b as u32);
    }
    h
}
fn crc32(s: &str) -> u32 {
    let mut c: u32 = !0;
    for b in s.bytes() {
        c ^= b as u32;
        for _ in 0..8 {
            c = if c & 1 != 0 { (c >> 1) ^ 0xEDB88320 } else { c >> 1 };
        }
    }
    !c
}
fn jenkins_oaat(s: &str) -> u32 {
    let mut h: u32 = 0;
    for b in s.bytes() {
        h = h.wrapping_add(b as u32);
        h = h.wrapping_add(h << 10);
        h ^= h >> 6;
    }
    h = h.wrapping_add(h << 3);
    h ^= h >> 11;
    h.wrapping_add(h << 15)
}
fn murmur3_32(s: &str) -> u32 {
    let data = s.as_bytes();
    let (c1, c2) = (0xcc9e2d51u32, 0x1b873593u32);
    let mut h: u32 = 0;
    let mut chunks = data.chunks_exact(4);
    for c in &mut chunks {
        let mut k = u32::from_le_bytes([c[0], c[1], c[2], c[3]]);
        k = k.wrapping_mul(c1).rotate_left(15).wrapping_mul(c2);
        h ^= k;
        h = h.rotate_left(13).wrapping_mul(5).wrapping_add(0xe6546b64);
    }
    let rem = chunks.remainder();
    let mut k: u32 = 0;
    for (i, b) in rem.iter().enumerate() {
        k |= (*b as u32) << (8 * i);
    }
    if !rem.is_empty() {
        k = k.wrapping_mul(c1).rotate_left(15).wrapping_mul(c2);
        h ^= k;
    }
    h ^= data.len() as u32;
    h ^= h >> 16;
    h = h.wrapping_mul(0x85ebca6b);
    h ^= h >> 13;
    h = h.wrapping_mul(0xc2b2ae35);
    h ^ (h >> 16)
}
fn fx64_low(s: &str) -> u32 {
    // rustc-hash 1.x FxHasher::write over the bytes
    const K: u64 = 0x517cc1b727220a95;
    let mut h: u64 = 0;
    let mut b = s.as_bytes();
    while b.len() >= 8 {
        h = (h.rotate_left(5) ^ u64::from_le_bytes(b[..8].try_into().unwrap())).wrapping_mul(K);
        b = &b[8..];
    }
    if b.len() >= 4 {
        h = (h.rotate_left(5) ^ u32::from_le_bytes(b[..4].try_into().unwrap()) as u64).wrapping_mul(K);
        b = &b[4..];
    }
    for x in b {
        h = (h.rotate_left(5) ^ *x as u64).wrapping_mul(K);
    }
    h as u32
}
fn sip_str(s: &str) -> u32 {
    let mut h = std::collections::hash_map::DefaultHasher::new();
    s.hash(&mut h);
    h.finish() as u32
}
fn sip_string_high(s: &str) -> u32 {
    let mut h = std::collections::hash_map::DefaultHasher::new();
    s.hash(&mut h);
    (h.finish() >> 32) as u32
}
fn sip_terminal_name(s: &str) -> u32 {
    let mut h = std::collections::hash_map::DefaultHasher::new();
    kiki::DollarlessTerminalName::remove_dollars(s).hash(&mut h);
    h.finish() as u32
}
fn sip_symbol_nonterminal(s: &str) -> u32 {
    let mut h = std::collections::hash_map::DefaultHasher::new();
    kiki::Symbol::Nonterminal(s.to_string()).hash(&mut h);
    h.finish() as u32
}
fn sip_symbol_terminal(s: &str) -> u32 {
    let mut h = std::collections::hash_map::DefaultHasher::new();
    kiki::Symbol::Terminal(kiki::DollarlessTerminalName::remove_dollars(s)).hash(&mut h);
    h.finish() as u32
}
fn sip_quasiterminal(s: &str) -> u32 {
    let mut h = std::collections::hash_map::DefaultHasher::new();
    let n = kiki::DollarlessTerminalName::remove_dollars(s);
    kiki::data::table::Quasiterminal::Terminal(&n).hash(&mut h);
    h.finish() as u32
}

pub const FUNCTIONS: &[(&str, H, bool)] = &[
    ("fnv1a32", fnv1a32, true),
    ("fnv1_32", fnv1_32, true),
    ("fnv1a64 low 32", fnv1a64_low, true),
    ("fnv1a64 xor-folded", fnv1a64_fold, true),
    ("djb2", djb2, true),
    ("djb2a", djb2a, true),
    ("sdbm", sdbm, true),
    ("java String.hashCode", java31, true),
    ("crc32", crc32, true),
    ("jenkins one-at-a-time", jenkins_oaat, true),
    ("murmur3_32 seed 0", murmur3_32, true),
    ("FxHasher low 32", fx64_low, true),
    ("DefaultHasher(str) low 32", sip_str, true),
    ("DefaultHasher(str) high 32", sip_string_high, false),
    ("DefaultHasher(DollarlessTerminalName) low 32", sip_terminal_name, false),
    ("DefaultHasher(Symbol::Nonterminal) low 32", sip_symbol_nonterminal, false),
    ("DefaultHasher(Symbol::Terminal) low 32", sip_symbol_terminal, false),
    ("DefaultHasher(Quasiterminal::Terminal) low 32", sip_quasiterminal, false),
];

const RESERVED: &[&str] = &["start", "struct", "enum", "terminal", "_"];

fn name_of(mut i: u64, upper_first: bool) -> String {
    const FIRST_U: &[u8] = b"ABCDEFGHIJKLMNOPQRSTUVWXYZ";
    const FIRST_L: &[u8] = b"abcdefghijklmnopqrstuvwxyz";
    const REST: &[u8] = b"abcdefghijklmnopqrstuvwxyzABCDEFGHIJKLMNOPQRSTUVWXYZ0123456789";
    let first = if upper_first { FIRST_U } else { FIRST_L };
    let mut s = String::new();
    s.push(first[(i % 26) as usize] as char);
    i /= 26;
    for _ in 0..6 {
        s.push(REST[(i % 62) as usize] as char);
        i /= 62;
    }
    s
}

pub fn main(out: &str) -> i32 {
    let mut text = String::from("//! GENERATED by `kv mk-hashtwins` (see hashgen.rs); do not edit.\n\n");
    text.push_str("/// (hash function, pairs of different identifiers with equal hash)\npub const TWINS: &[(&str, &[(&str, &str)])] = &[\n");
    for (name, h, _) in FUNCTIONS {
        let mut seen: HashMap<u32, u64> = HashMap::new();
        let mut pairs: Vec<(String, String)> = vec![];
        let mut i = 0u64;
        // stride through the name space so that the names look unrelated
        while pairs.len() < 8 && i < 3_000_000 {
            let idx = i.wrapping_mul(0x9E3779B97F4A7C15) % (26 * 62u64.pow(6));
            let n = name_of(idx, true);
            match seen.get(&h(&n)) {
                Some(j) if *j != idx => pairs.push((name_of(*j, true), n)),
                _ => {
                    seen.insert(h(&n), idx);
                }
            }
            i += 1;
        }
        text.push_str(&format!("    ({name:?}, &[{}]),\n", pairs.iter().map(|(a, b)| format!("({a:?}, {b:?})")).collect::<Vec<_>>().join(", ")));
        eprintln!("{name}: {} pairs", pairs.len());
    }
    text.push_str("];\n\n/// (hash function, reserved word, identifiers with the reserved word's hash)\npub const KEYWORD_PREIMAGES: &[(&str, &str, &[&str])] = &[\n");
    for (name, h, search) in FUNCTIONS {
        if !*search {
            continue;
        }
        let targets: Vec<(u32, &str)> = RESERVED.iter().map(|k| (h(k), *k)).collect();
        let found: std::sync::Mutex<HashMap<&str, Vec<String>>> = std::sync::Mutex::new(HashMap::new());
        let done = std::sync::atomic::AtomicBool::new(false);
        std::thread::scope(|sc| {
            for t in 0..16u64 {
                let targets = &targets;
                let found = &found;
                let done = &done;
                sc.spawn(move || {
                    let space = 26 * 62u64.pow(6);
                    let mut idx = t;
                    let mut n = 0u64;
                    while idx < space && n < 1_500_000_000 {
                        if n % (1 << 22) == 0 && done.load(std::sync::atomic::Ordering::Relaxed) {
                            break;
                        }
                        for upper in [true, false] {
                            let s = name_of(idx.wrapping_mul(0x2545F4914F6CDD1D) % space, upper);
                            let hv = h(&s);
                            for (tv, k) in targets.iter() {
                                if hv == *tv && s != *k {
                                    let mut f = found.lock().unwrap();
                                    let e = f.entry(*k).or_default();
                                    if e.len() < 3 && !e.contains(&s) {
                                        e.push(s.clone());
                                    }
                                    if f.len() == targets.len() && f.values().all(|v| v.len() >= 2) {
                                        done.store(true, std::sync::atomic::Ordering::Relaxed);
                                    }
                                }
                            }
                        }
                        idx += 16;
                        n += 1;
                    }
                });
            }
        });
        let f = found.lock().unwrap();
        for k in RESERVED {
            let v = f.get(k).cloned().unwrap_or_default();
            text.push_str(&format!("    ({name:?}, {k:?}, &[{}]),\n", v.iter().map(|x| format!("{x:?}")).collect::<Vec<_>>().join(", ")));
        }
        eprintln!("{name}: preimages {:?}", f.iter().map(|(k, v)| (k, v.len())).collect::<Vec<_>>());
    }
    text.push_str("];\n");
    std::fs::write(out, text).expect("write");
    0
}
