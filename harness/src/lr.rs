//! R-lr1: textbook FIRST / nullable, canonical LR(1) collection by
//! closure/goto, LALR(1) := canonical LR(1) states merged by core, action
//! sets, conflicts, an LR(1) parser simulation, plus grammar analyses
//! (productive, reachable, shortest sentences, FOLLOW/SLR for classification).
//! Written from the definitions; shares no code with kiki.

use crate::model::{Cfg, Sym};
use std::collections::{BTreeMap, HashMap};

/// Lookahead sets are bit sets over terminal indices; bit `cfg.nt` is end of input.
pub const LA_WORDS: usize = 5;
pub const MAX_T: usize = 64 * LA_WORDS - 2;

/// A set of lookaheads (terminal indices and end of input) as a bit set.
#[derive(Clone, Copy, PartialEq, Eq, Hash, PartialOrd, Ord, Default)]
pub struct La(pub [u64; LA_WORDS]);

impl La {
    pub const EMPTY: La = La([0; LA_WORDS]);
    #[inline]
    pub fn is_empty(&self) -> bool {
        self.0.iter().all(|w| *w == 0)
    }
    #[inline]
    pub fn has(&self, i: usize) -> bool {
        self.0[i / 64] >> (i % 64) & 1 == 1
    }
    #[inline]
    pub fn insert(&mut self, i: usize) {
        self.0[i / 64] |= 1u64 << (i % 64);
    }
    /// Is `other` a subset of `self`?
    #[inline]
    pub fn includes(&self, other: La) -> bool {
        self.0.iter().zip(other.0.iter()).all(|(a, b)| a | b == *a)
    }
    pub fn len(&self) -> usize {
        self.0.iter().map(|w| w.count_ones() as usize).sum()
    }
    pub fn iter(&self) -> impl Iterator<Item = usize> + '_ {
        (0..64 * LA_WORDS).filter(move |i| self.has(*i))
    }
}

impl std::fmt::Debug for La {
    fn fmt(&self, f: &mut std::fmt::Formatter<'_>) -> std::fmt::Result {
        f.debug_set().entries(self.iter()).finish()
    }
}

impl std::ops::BitOr for La {
    type Output = La;
    #[inline]
    fn bitor(self, o: La) -> La {
        let mut r = self;
        for (a, b) in r.0.iter_mut().zip(o.0.iter()) {
            *a |= *b;
        }
        r
    }
}

impl std::ops::BitOrAssign for La {
    #[inline]
    fn bitor_assign(&mut self, o: La) {
        for (a, b) in self.0.iter_mut().zip(o.0.iter()) {
            *a |= *b;
        }
    }
}

impl std::ops::BitAnd for La {
    type Output = La;
    #[inline]
    fn bitand(self, o: La) -> La {
        let mut r = self;
        for (a, b) in r.0.iter_mut().zip(o.0.iter()) {
            *a &= *b;
        }
        r
    }
}

#[inline]
pub fn bit(i: usize) -> La {
    let mut l = La::EMPTY;
    l.insert(i);
    l
}

#[derive(Clone, Debug)]
pub struct First {
    pub first: Vec<La>,
    pub nullable: Vec<bool>,
    pub rounds: usize,
}

pub fn first_sets(cfg: &Cfg) -> First {
    let mut first: Vec<La> = vec![La::EMPTY; cfg.nn];
    let mut nullable = vec![false; cfg.nn];
    let mut rounds = 0;
    loop {
        rounds += 1;
        let mut changed = false;
        for r in &cfg.rules {
            let mut all_nullable = true;
            let mut add: La = La::EMPTY;
            for s in &r.rhs {
                match s {
                    Sym::T(t) => {
                        add.insert(*t);
                        all_nullable = false;
                        break;
                    }
                    Sym::N(n) => {
                        add |= first[*n];
                        if !nullable[*n] {
                            all_nullable = false;
                            break;
                        }
                    }
                }
            }
            if !first[r.lhs].includes(add) {
                first[r.lhs] |= add;
                changed = true;
            }
            if all_nullable && !nullable[r.lhs] {
                nullable[r.lhs] = true;
                changed = true;
            }
        }
        if !changed {
            break;
        }
    }
    First {
        first,
        nullable,
        rounds,
    }
}

/// FIRST of a symbol string followed by the lookahead set `la`.
pub fn first_of_seq(seq: &[Sym], la: La, f: &First) -> La {
    let mut out: La = La::EMPTY;
    for s in seq {
        match s {
            Sym::T(t) => return out | bit(*t),
            Sym::N(n) => {
                out |= f.first[*n];
                if !f.nullable[*n] {
                    return out;
                }
            }
        }
    }
    out | la
}

#[derive(Clone, Copy, PartialEq, Eq, Hash, PartialOrd, Ord, Debug)]
pub struct Core {
    /// Rule index; `cfg.rules.len()` is the augmented rule `S' -> start`.
    pub rule: u32,
    pub dot: u32,
}

/// Sorted by core; every lookahead set is non-empty.
pub type ItemSet = Vec<(Core, La)>;

pub struct Ctx<'a> {
    pub cfg: &'a Cfg,
    pub first: First,
    pub aug_rhs: [Sym; 1],
    pub by_lhs: Vec<Vec<usize>>,
}

impl<'a> Ctx<'a> {
    pub fn new(cfg: &'a Cfg) -> Ctx<'a> {
        let mut by_lhs = vec![vec![]; cfg.nn];
        for (i, r) in cfg.rules.iter().enumerate() {
            by_lhs[r.lhs].push(i);
        }
        Ctx {
            cfg,
            first: first_sets(cfg),
            aug_rhs: [Sym::N(cfg.start)],
            by_lhs,
        }
    }

    pub fn aug(&self) -> u32 {
        self.cfg.rules.len() as u32
    }

    pub fn rhs(&self, rule: u32) -> &[Sym] {
        if rule == self.aug() {
            &self.aug_rhs
        } else {
            &self.cfg.rules[rule as usize].rhs
        }
    }

    pub fn eof_bit(&self) -> La {
        bit(self.cfg.nt)
    }

    /// LR(1) closure, set-valued: the union of the item-wise textbook closure.
    /// An item exists only with a non-empty lookahead set, and only existing
    /// items are expanded.
    pub fn closure(&self, kernel: &[(Core, La)], steps: &mut u64) -> ItemSet {
        let mut map: BTreeMap<Core, La> = BTreeMap::new();
        let mut work: Vec<Core> = vec![];
        for (c, la) in kernel {
            if la.is_empty() {
                continue;
            }
            let e = map.entry(*c).or_insert(La::EMPTY);
            if !e.includes(*la) {
                *e |= *la;
                work.push(*c);
            }
        }
        while let Some(c) = work.pop() {
            *steps += 1;
            let la = map[&c];
            let rhs = self.rhs(c.rule);
            let d = c.dot as usize;
            if d < rhs.len() {
                if let Sym::N(b) = rhs[d] {
                    let las = first_of_seq(&rhs[d + 1..], la, &self.first);
                    if las.is_empty() {
                        continue;
                    }
                    for r2 in &self.by_lhs[b] {
                        let c2 = Core {
                            rule: *r2 as u32,
                            dot: 0,
                        };
                        let e = map.entry(c2).or_insert(La::EMPTY);
                        if !e.includes(las) {
                            *e |= las;
                            work.push(c2);
                        }
                    }
                }
            }
        }
        map.into_iter().collect()
    }

    pub fn start_state(&self, steps: &mut u64) -> ItemSet {
        self.closure(
            &[(
                Core {
                    rule: self.aug(),
                    dot: 0,
                },
                self.eof_bit(),
            )],
            steps,
        )
    }

    pub fn gotos(&self, st: &ItemSet, steps: &mut u64) -> BTreeMap<Sym, ItemSet> {
        let mut kernels: BTreeMap<Sym, Vec<(Core, La)>> = BTreeMap::new();
        for (c, la) in st {
            let rhs = self.rhs(c.rule);
            if (c.dot as usize) < rhs.len() {
                kernels.entry(rhs[c.dot as usize]).or_default().push((
                    Core {
                        rule: c.rule,
                        dot: c.dot + 1,
                    },
                    *la,
                ));
            }
        }
        kernels
            .into_iter()
            .map(|(s, k)| (s, self.closure(&k, steps)))
            .collect()
    }
}

#[derive(Clone, Debug)]
pub struct Automaton {
    pub states: Vec<ItemSet>,
    pub trans: Vec<BTreeMap<Sym, usize>>,
    pub start: usize,
}

/// Canonical LR(1) collection.  `None` if it exceeds `max_states`.
pub fn canonical_lr1(ctx: &Ctx, max_states: usize, steps: &mut u64) -> Option<Automaton> {
    let s0 = ctx.start_state(steps);
    let mut index: HashMap<ItemSet, usize> = HashMap::new();
    index.insert(s0.clone(), 0);
    let mut states = vec![s0];
    let mut trans: Vec<BTreeMap<Sym, usize>> = vec![BTreeMap::new()];
    let mut work = vec![0usize];
    while let Some(i) = work.pop() {
        let st = states[i].clone();
        for (sym, target) in ctx.gotos(&st, steps) {
            let j = match index.get(&target) {
                Some(j) => *j,
                None => {
                    let j = states.len();
                    if j >= max_states {
                        return None;
                    }
                    index.insert(target.clone(), j);
                    states.push(target);
                    trans.push(BTreeMap::new());
                    work.push(j);
                    j
                }
            };
            trans[i].insert(sym, j);
        }
    }
    Some(Automaton {
        states,
        trans,
        start: 0,
    })
}

pub fn cores_of(st: &ItemSet) -> Vec<Core> {
    st.iter().map(|(c, _)| *c).collect()
}

/// LALR(1) automaton by definition: merge canonical LR(1) states with equal cores.
pub fn merge_by_core(lr1: &Automaton) -> (Automaton, Vec<usize>) {
    let mut index: HashMap<Vec<Core>, usize> = HashMap::new();
    let mut states: Vec<ItemSet> = vec![];
    let mut of_lr1 = vec![];
    for st in &lr1.states {
        let cores = cores_of(st);
        let k = match index.get(&cores) {
            Some(k) => *k,
            None => {
                let k = states.len();
                index.insert(cores, k);
                states.push(st.iter().map(|(c, _)| (*c, La::EMPTY)).collect());
                k
            }
        };
        for (slot, (_, la)) in states[k].iter_mut().zip(st.iter()) {
            slot.1 |= *la;
        }
        of_lr1.push(k);
    }
    let mut trans: Vec<BTreeMap<Sym, usize>> = vec![BTreeMap::new(); states.len()];
    for (i, t) in lr1.trans.iter().enumerate() {
        for (sym, j) in t {
            let prev = trans[of_lr1[i]].insert(*sym, of_lr1[*j]);
            if let Some(p) = prev {
                assert_eq!(p, of_lr1[*j], "merge-by-core produced inconsistent goto");
            }
        }
    }
    (
        Automaton {
            states,
            trans,
            start: of_lr1[lr1.start],
        },
        of_lr1,
    )
}

#[derive(Clone, Copy, Debug, PartialEq, Eq, Hash, PartialOrd, Ord)]
pub enum Act {
    Shift(usize),
    Reduce(usize),
    Accept,
}

/// `[state][lookahead index 0..=nt]` -> sorted set of demanded actions.
pub fn action_sets(ctx: &Ctx, a: &Automaton) -> Vec<Vec<Vec<Act>>> {
    let nt = ctx.cfg.nt;
    let mut out = vec![];
    for (i, st) in a.states.iter().enumerate() {
        let mut row: Vec<Vec<Act>> = vec![vec![]; nt + 1];
        for (c, la) in st {
            let rhs = ctx.rhs(c.rule);
            let d = c.dot as usize;
            if d < rhs.len() {
                if let Sym::T(t) = rhs[d] {
                    let target = a.trans[i][&Sym::T(t)];
                    row[t].push(Act::Shift(target));
                }
            } else if c.rule == ctx.aug() {
                // completed augmented item: accept on end of input
                row[nt].push(Act::Accept);
            } else {
                for l in 0..=nt {
                    if la.has(l) {
                        row[l].push(Act::Reduce(c.rule as usize));
                    }
                }
            }
        }
        for cell in row.iter_mut() {
            cell.sort();
            cell.dedup();
        }
        out.push(row);
    }
    out
}

pub fn has_conflict(acts: &[Vec<Vec<Act>>]) -> bool {
    acts.iter().any(|row| row.iter().any(|c| c.len() > 1))
}

#[derive(Clone, Copy, Debug, PartialEq, Eq, Hash, PartialOrd, Ord)]
pub enum ConflictKind {
    ShiftReduce,
    ReduceReduce,
    AcceptReduce,
    ShiftAccept,
}

pub fn conflict_kinds(acts: &[Vec<Vec<Act>>]) -> Vec<ConflictKind> {
    let mut out = vec![];
    for row in acts {
        for cell in row {
            if cell.len() > 1 {
                let s = cell.iter().any(|a| matches!(a, Act::Shift(_)));
                let r = cell.iter().filter(|a| matches!(a, Act::Reduce(_))).count();
                let acc = cell.iter().any(|a| matches!(a, Act::Accept));
                if s && r > 0 {
                    out.push(ConflictKind::ShiftReduce);
                }
                if r > 1 {
                    out.push(ConflictKind::ReduceReduce);
                }
                if acc && r > 0 {
                    out.push(ConflictKind::AcceptReduce);
                }
                if acc && s {
                    out.push(ConflictKind::ShiftAccept);
                }
            }
        }
    }
    out.sort();
    out.dedup();
    out
}

#[derive(Clone, Debug, PartialEq, Eq)]
pub enum Tree {
    Leaf { term: usize, pos: usize },
    Node { rule: usize, kids: Vec<Tree> },
}

impl Tree {
    pub fn frontier(&self, out: &mut Vec<(usize, usize)>) {
        match self {
            Tree::Leaf { term, pos } => out.push((*term, *pos)),
            Tree::Node { kids, .. } => kids.iter().for_each(|k| k.frontier(out)),
        }
    }
}

#[derive(Clone, Debug, PartialEq, Eq)]
pub enum ParseOutcome {
    Accept(Tree),
    /// Index of the first token that cannot be shifted; `None` = end of input.
    Reject(Option<usize>),
    /// The automaton itself has a conflict in a visited cell.
    Conflict,
}

/// Run an LR parser over the given automaton (canonical LR(1) or merged).
/// Also records which (state, lookahead) cells were consulted.
pub fn lr_parse(
    ctx: &Ctx,
    a: &Automaton,
    w: &[usize],
    cells: Option<&mut Vec<(usize, usize)>>,
) -> ParseOutcome {
    let nt = ctx.cfg.nt;
    let mut stack = vec![a.start];
    let mut nodes: Vec<Tree> = vec![];
    let mut i = 0;
    let mut cells = cells;
    loop {
        let la = if i < w.len() { w[i] } else { nt };
        let s = *stack.last().unwrap();
        if let Some(c) = cells.as_deref_mut() {
            c.push((s, la));
        }
        let mut acts: Vec<Act> = vec![];
        for (c, las) in &a.states[s] {
            let rhs = ctx.rhs(c.rule);
            let d = c.dot as usize;
            if d < rhs.len() {
                if la < nt && rhs[d] == Sym::T(la) {
                    acts.push(Act::Shift(a.trans[s][&Sym::T(la)]));
                }
            } else if las.has(la) {
                if c.rule == ctx.aug() {
                    acts.push(Act::Accept);
                } else {
                    acts.push(Act::Reduce(c.rule as usize));
                }
            }
        }
        acts.sort();
        acts.dedup();
        if acts.len() > 1 {
            return ParseOutcome::Conflict;
        }
        match acts.first() {
            None => return ParseOutcome::Reject(if i < w.len() { Some(i) } else { None }),
            Some(Act::Shift(t)) => {
                stack.push(*t);
                nodes.push(Tree::Leaf { term: la, pos: i });
                i += 1;
            }
            Some(Act::Accept) => return ParseOutcome::Accept(nodes.pop().unwrap()),
            Some(Act::Reduce(r)) => {
                let rule = &ctx.cfg.rules[*r];
                let n = rule.rhs.len();
                let kids = nodes.split_off(nodes.len() - n);
                stack.truncate(stack.len() - n);
                nodes.push(Tree::Node { rule: *r, kids });
                let top = *stack.last().unwrap();
                match a.trans[top].get(&Sym::N(rule.lhs)) {
                    Some(t) => stack.push(*t),
                    None => {
                        return ParseOutcome::Reject(if i < w.len() { Some(i) } else { None })
                    }
                }
            }
        }
    }
}

/// Definitional check that `tree` is a derivation tree of `w` from `root`.
pub fn tree_is_derivation(cfg: &Cfg, tree: &Tree, root: usize, w: &[usize]) -> bool {
    fn ok(cfg: &Cfg, t: &Tree, expect: Sym) -> bool {
        match (t, expect) {
            (Tree::Leaf { term, .. }, Sym::T(e)) => *term == e,
            (Tree::Node { rule, kids }, Sym::N(e)) => {
                let r = &cfg.rules[*rule];
                r.lhs == e
                    && r.rhs.len() == kids.len()
                    && kids.iter().zip(r.rhs.iter()).all(|(k, s)| ok(cfg, k, *s))
            }
            _ => false,
        }
    }
    if !ok(cfg, tree, Sym::N(root)) {
        return false;
    }
    let mut f = vec![];
    tree.frontier(&mut f);
    f.len() == w.len()
        && f
            .iter()
            .enumerate()
            .all(|(i, (t, p))| *p == i && *t == w[i])
}

// ---------------------------------------------------------------------------
// Grammar analyses

pub struct Analysis {
    pub productive: Vec<bool>,
    pub reachable: Vec<bool>,
    /// Length of a shortest sentence of each nonterminal (usize::MAX: none).
    pub min_len: Vec<usize>,
    pub rule_min_len: Vec<usize>,
}

pub fn analyse(cfg: &Cfg) -> Analysis {
    let inf = usize::MAX;
    let mut min_len = vec![inf; cfg.nn];
    let mut rule_min_len = vec![inf; cfg.rules.len()];
    loop {
        let mut changed = false;
        for (ri, r) in cfg.rules.iter().enumerate() {
            let mut total = 0usize;
            for s in &r.rhs {
                let l = match s {
                    Sym::T(_) => 1,
                    Sym::N(n) => min_len[*n],
                };
                if l == inf {
                    total = inf;
                    break;
                }
                total += l;
            }
            if total < rule_min_len[ri] {
                rule_min_len[ri] = total;
                changed = true;
            }
            if total < min_len[r.lhs] {
                min_len[r.lhs] = total;
                changed = true;
            }
        }
        if !changed {
            break;
        }
    }
    let productive: Vec<bool> = min_len.iter().map(|l| *l != inf).collect();
    let mut reachable = vec![false; cfg.nn];
    let mut work = vec![cfg.start];
    reachable[cfg.start] = true;
    while let Some(n) = work.pop() {
        for r in cfg.rules.iter().filter(|r| r.lhs == n) {
            for s in &r.rhs {
                if let Sym::N(m) = s {
                    if !reachable[*m] {
                        reachable[*m] = true;
                        work.push(*m);
                    }
                }
            }
        }
    }
    Analysis {
        productive,
        reachable,
        min_len,
        rule_min_len,
    }
}

pub fn follow_sets(ctx: &Ctx) -> Vec<La> {
    let cfg = ctx.cfg;
    let mut follow: Vec<La> = vec![La::EMPTY; cfg.nn];
    follow[cfg.start] |= ctx.eof_bit();
    loop {
        let mut changed = false;
        for r in &cfg.rules {
            for (i, s) in r.rhs.iter().enumerate() {
                if let Sym::N(b) = s {
                    let add = first_of_seq(&r.rhs[i + 1..], follow[r.lhs], &ctx.first);
                    if !follow[*b].includes(add) {
                        follow[*b] |= add;
                        changed = true;
                    }
                }
            }
        }
        if !changed {
            break;
        }
    }
    follow
}

#[derive(Clone, Copy, Debug, PartialEq, Eq, Hash, PartialOrd, Ord)]
pub enum Class {
    Slr,
    LalrNotSlr,
    Lr1NotLalr,
    NotLr1,
}

impl Class {
    pub fn name(&self) -> &'static str {
        match self {
            Class::Slr => "SLR(1)",
            Class::LalrNotSlr => "LALR(1)\\SLR(1)",
            Class::Lr1NotLalr => "LR(1)\\LALR(1)",
            Class::NotLr1 => "not LR(1)",
        }
    }
}

/// SLR-style action sets on the merged automaton: reduce on FOLLOW(lhs).
/// Used for classification only.
pub fn slr_has_conflict(ctx: &Ctx, lalr: &Automaton) -> bool {
    let follow = follow_sets(ctx);
    let mut slr = lalr.clone();
    for st in slr.states.iter_mut() {
        for (c, la) in st.iter_mut() {
            let rhs = ctx.rhs(c.rule);
            if c.dot as usize == rhs.len() && c.rule != ctx.aug() {
                *la = follow[ctx.cfg.rules[c.rule as usize].lhs];
            }
        }
    }
    has_conflict(&action_sets(ctx, &slr))
}

pub struct Reference<'a> {
    pub ctx: Ctx<'a>,
    pub lr1: Automaton,
    pub lalr: Automaton,
    pub of_lr1: Vec<usize>,
    pub lalr_actions: Vec<Vec<Vec<Act>>>,
    pub lalr_conflict: bool,
    pub lr1_conflict: bool,
    pub closure_steps: u64,
}

pub fn build_reference(cfg: &Cfg, max_states: usize) -> Option<Reference<'_>> {
    if cfg.nt > MAX_T {
        return None;
    }
    let ctx = Ctx::new(cfg);
    let mut steps = 0u64;
    let lr1 = canonical_lr1(&ctx, max_states, &mut steps)?;
    let (lalr, of_lr1) = merge_by_core(&lr1);
    let lalr_actions = action_sets(&ctx, &lalr);
    let lalr_conflict = has_conflict(&lalr_actions);
    let lr1_conflict = has_conflict(&action_sets(&ctx, &lr1));
    Some(Reference {
        ctx,
        lr1,
        lalr,
        of_lr1,
        lalr_actions,
        lalr_conflict,
        lr1_conflict,
        closure_steps: steps,
    })
}

impl Reference<'_> {
    pub fn class(&self) -> Class {
        if self.lr1_conflict {
            Class::NotLr1
        } else if self.lalr_conflict {
            Class::Lr1NotLalr
        } else if slr_has_conflict(&self.ctx, &self.lalr) {
            Class::LalrNotSlr
        } else {
            Class::Slr
        }
    }

    /// Are some LALR(1) reduce lookahead sets strictly smaller than FOLLOW?
    pub fn lalr_tighter_than_slr(&self) -> bool {
        let follow = follow_sets(&self.ctx);
        for st in &self.lalr.states {
            for (c, la) in st {
                let rhs = self.ctx.rhs(c.rule);
                if c.dot as usize == rhs.len() && c.rule != self.ctx.aug() {
                    let f = follow[self.ctx.cfg.rules[c.rule as usize].lhs];
                    if !la.includes(f) {
                        return true;
                    }
                }
            }
        }
        false
    }

    pub fn total_items(&self) -> usize {
        self.lalr.states.iter().map(|s| s.len()).sum()
    }
}
