//! Coordinator / worker plumbing: deterministic case list, sharding over
//! child processes, abort and CPU-time observation, aggregation, known
//! findings, evidence files, replay files, three-valued verdicts.

use serde_json::{json, Map, Value};
use std::collections::{BTreeMap, BTreeSet};
use std::io::{BufRead, BufReader, Write};
use std::path::{Path, PathBuf};
use std::process::{Command, Stdio};
use std::sync::mpsc;
use std::time::{Duration, Instant};

#[derive(Clone, Copy, Debug, PartialEq, Eq)]
pub enum Tier {
    Quick,
    Thorough,
}

impl Tier {
    pub fn parse(s: &str) -> Option<Tier> {
        match s {
            "quick" => Some(Tier::Quick),
            "thorough" => Some(Tier::Thorough),
            _ => None,
        }
    }
    pub fn name(&self) -> &'static str {
        match self {
            Tier::Quick => "quick",
            Tier::Thorough => "thorough",
        }
    }
    pub fn pick<T>(&self, quick: T, thorough: T) -> T {
        match self {
            Tier::Quick => quick,
            Tier::Thorough => thorough,
        }
    }
}

pub fn verif_root() -> PathBuf {
    if let Ok(p) = std::env::var("KV_VERIF_ROOT") {
        return PathBuf::from(p);
    }
    // <root>/harness/target/<profile>/kv
    let exe = std::env::current_exe().expect("current_exe");
    let mut p = exe.as_path();
    for _ in 0..4 {
        p = p.parent().unwrap_or(Path::new("/verif"));
    }
    p.to_path_buf()
}

// ---------------------------------------------------------------------------
// Engines

pub trait Engine: Sync {
    fn name(&self) -> &'static str;
    /// Number of cases for this property / tier.
    fn total_cases(&self, prop: &str, tier: Tier) -> u64;
    /// Execute one case, recording observations in the worker.
    fn run_case(&self, w: &mut Worker, idx: u64);
    /// Human-readable description of a case's input (used when a worker dies on it).
    fn describe_case(&self, prop: &str, tier: Tier, seed: u64, idx: u64, sub: u64) -> Value;
    /// How cases are generated and what counts as distinct / non-trivial.
    fn rule(&self, prop: &str) -> String;
    /// Floors: reasons why this run must be called inconclusive.
    fn floors(&self, _prop: &str, _tier: Tier, _agg: &Agg) -> Vec<String> {
        vec![]
    }
    /// Is a worker abort (signal / CPU budget) on a case a refuting event of this property?
    fn abort_is_violation(&self, _prop: &str) -> bool {
        false
    }
    fn level(&self, _prop: &str) -> &'static str {
        "exploration"
    }
    fn assumptions(&self, _prop: &str) -> Vec<String> {
        vec![]
    }
    /// Extra keys for the coverage object.
    fn extra_coverage(&self, _prop: &str, _tier: Tier, _agg: &Agg) -> Map<String, Value> {
        Map::new()
    }
    /// CPU-seconds a single case may burn before it is called non-terminating.
    fn cpu_budget_s(&self, _prop: &str, _tier: Tier) -> u64 {
        120
    }
    /// Worker binary profile: Some("dev") to use the unoptimised worker for a case range.
    fn use_dev_worker(&self, _prop: &str) -> bool {
        false
    }
}

// ---------------------------------------------------------------------------
// Worker side

pub struct Worker {
    pub prop: String,
    pub tier: Tier,
    pub seed: u64,
    pub scratch: PathBuf,
    pub shard: usize,
    pub dev_profile: bool,
    counters: BTreeMap<String, u64>,
    maxes: BTreeMap<String, u64>,
    sets: BTreeMap<String, BTreeSet<String>>,
    samples: Vec<Value>,
    sample_labels: BTreeSet<String>,
    hashes: Vec<u64>,
    evaluations: u64,
    out: std::io::Stdout,
    pub current_case: u64,
    cur_file: Option<std::fs::File>,
}

impl Worker {
    pub fn count(&mut self, key: &str) {
        *self.counters.entry(key.to_string()).or_insert(0) += 1;
    }
    pub fn count_n(&mut self, key: &str, n: u64) {
        *self.counters.entry(key.to_string()).or_insert(0) += n;
    }
    pub fn max(&mut self, key: &str, v: u64) {
        let e = self.maxes.entry(key.to_string()).or_insert(0);
        if v > *e {
            *e = v;
        }
    }
    /// Small sets of strings (e.g. error codes seen, cells covered) – unioned by the coordinator.
    pub fn set_insert(&mut self, key: &str, v: String) {
        let s = self.sets.entry(key.to_string()).or_default();
        if s.len() < 200_000 {
            s.insert(v);
        }
    }
    pub fn eval(&mut self) {
        self.evaluations += 1;
    }
    pub fn eval_n(&mut self, n: u64) {
        self.evaluations += n;
    }
    pub fn nontrivial(&mut self, hash: u64) {
        self.hashes.push(hash);
        if self.hashes.len() >= 1 << 20 {
            self.flush_hashes();
        }
    }
    /// Keep at most one sample per label (and at most 6 per worker).
    pub fn sample(&mut self, label: &str, v: Value) {
        if self.samples.len() < 6 && self.sample_labels.insert(label.to_string()) {
            self.samples.push(json!({"kind": label, "case": self.current_case, "sample": v}));
        }
    }
    pub fn wants_sample(&self, label: &str) -> bool {
        self.samples.len() < 6 && !self.sample_labels.contains(label)
    }
    pub fn violation(&mut self, sig: &str, what: &str, witness: Value) {
        let rec = json!({
            "sig": sig, "what": what, "case": self.current_case, "witness": witness,
        });
        let mut o = self.out.lock();
        let _ = writeln!(o, "V {}", rec);
        let _ = o.flush();
    }
    /// The oracle or the harness could not decide this case.
    pub fn inconclusive(&mut self, why: &str) {
        let mut o = self.out.lock();
        let _ = writeln!(o, "I {} case={}", why.replace('\n', " "), self.current_case);
        let _ = o.flush();
    }
    /// Record the sub-index of the input about to be run inside the current case, so
    /// that a death of this process can be pinned to one input.
    pub fn sub(&mut self, sub: u64) {
        use std::os::unix::fs::FileExt;
        if let Some(f) = &self.cur_file {
            let _ = f.write_at(&sub.to_le_bytes(), 0);
        }
    }
    fn begin(&mut self, idx: u64) {
        self.count(if cfg!(debug_assertions) { "cases-run:kiki-built-with-debug-assertions-and-overflow-checks" } else { "cases-run:kiki-built-WITHOUT-debug-assertions-and-overflow-checks" });
        self.current_case = idx;
        self.sub(0);
        let mut o = self.out.lock();
        let _ = writeln!(o, "B {idx}");
        let _ = o.flush();
    }
    fn flush_hashes(&mut self) {
        if self.hashes.is_empty() {
            return;
        }
        self.hashes.sort_unstable();
        self.hashes.dedup();
        let path = self.scratch.join(format!("hashes-{}.bin", self.shard));
        if let Ok(mut f) = std::fs::OpenOptions::new().create(true).append(true).open(path) {
            let mut buf = Vec::with_capacity(self.hashes.len() * 8);
            for h in &self.hashes {
                buf.extend_from_slice(&h.to_le_bytes());
            }
            let _ = f.write_all(&buf);
        }
        self.hashes.clear();
    }
    fn finish(&mut self) {
        self.flush_hashes();
        let sets: Map<String, Value> = self
            .sets
            .iter()
            .map(|(k, v)| (k.clone(), json!(v.iter().collect::<Vec<_>>())))
            .collect();
        let rec = json!({
            "counters": self.counters, "maxes": self.maxes, "sets": sets,
            "samples": self.samples, "evaluations": self.evaluations,
        });
        let mut o = self.out.lock();
        let _ = writeln!(o, "C {}", rec);
        let _ = writeln!(o, "D");
        let _ = o.flush();
    }
}

pub fn worker_main(engine: &dyn Engine, args: &[String]) -> i32 {
    // worker <prop> <tier> <seed> <shard> <nshards> <scratch> <from> <dev:0|1>
    let prop = args[0].clone();
    let tier = Tier::parse(&args[1]).expect("tier");
    let seed: u64 = args[2].parse().expect("seed");
    let shard: usize = args[3].parse().expect("shard");
    let nshards: usize = args[4].parse().expect("nshards");
    let scratch = PathBuf::from(&args[5]);
    let from: u64 = args[6].parse().expect("from");
    let dev_profile = args.get(7).map(|s| s == "1").unwrap_or(false);
    let only: Option<u64> = args.get(8).and_then(|s| s.parse().ok());
    crate::util::install_silent_panic_hook();
    let mut w = Worker {
        prop: prop.clone(),
        tier,
        seed,
        scratch,
        shard,
        dev_profile,
        counters: BTreeMap::new(),
        maxes: BTreeMap::new(),
        sets: BTreeMap::new(),
        samples: vec![],
        sample_labels: BTreeSet::new(),
        hashes: vec![],
        evaluations: 0,
        out: std::io::stdout(),
        current_case: 0,
        cur_file: None,
    };
    w.cur_file = std::fs::OpenOptions::new()
        .create(true)
        .write(true)
        .truncate(true)
        .open(w.scratch.join(format!("cur-{shard}.bin")))
        .ok();
    let total = engine.total_cases(&prop, tier);
    let mut idx = shard as u64;
    while idx < total {
        if idx >= from && only.map(|o| o == idx).unwrap_or(true) {
            w.begin(idx);
            engine.run_case(&mut w, idx);
        }
        idx += nshards as u64;
    }
    w.finish();
    0
}

// ---------------------------------------------------------------------------
// Coordinator side

#[derive(Default, Debug)]
pub struct Agg {
    pub counters: BTreeMap<String, u64>,
    pub maxes: BTreeMap<String, u64>,
    pub sets: BTreeMap<String, BTreeSet<String>>,
    pub samples: Vec<Value>,
    pub evaluations: u64,
    pub distinct_nontrivial: u64,
    pub violations: Vec<Value>,
    pub inconclusive: Vec<String>,
    pub aborts: Vec<Value>,
}

impl Agg {
    pub fn counter(&self, k: &str) -> u64 {
        self.counters.get(k).copied().unwrap_or(0)
    }
    pub fn counters_with_prefix(&self, p: &str) -> u64 {
        self.counters
            .iter()
            .filter(|(k, _)| k.starts_with(p))
            .map(|(_, v)| *v)
            .sum()
    }
    pub fn set_len(&self, k: &str) -> usize {
        self.sets.get(k).map(|s| s.len()).unwrap_or(0)
    }
    fn merge(&mut self, c: &Value) {
        if let Some(m) = c["counters"].as_object() {
            for (k, v) in m {
                *self.counters.entry(k.clone()).or_insert(0) += v.as_u64().unwrap_or(0);
            }
        }
        if let Some(m) = c["maxes"].as_object() {
            for (k, v) in m {
                let e = self.maxes.entry(k.clone()).or_insert(0);
                *e = (*e).max(v.as_u64().unwrap_or(0));
            }
        }
        if let Some(m) = c["sets"].as_object() {
            for (k, v) in m {
                let e = self.sets.entry(k.clone()).or_default();
                for x in v.as_array().into_iter().flatten() {
                    if let Some(s) = x.as_str() {
                        e.insert(s.to_string());
                    }
                }
            }
        }
        if let Some(a) = c["samples"].as_array() {
            self.samples.extend(a.iter().cloned());
        }
        self.evaluations += c["evaluations"].as_u64().unwrap_or(0);
    }
}

pub struct KnownFindings {
    /// (property, signature, description)
    pub known: Vec<(String, String, String)>,
}

impl KnownFindings {
    pub fn load(root: &Path) -> KnownFindings {
        let mut known = vec![];
        if let Ok(text) = std::fs::read_to_string(root.join("KNOWN_FINDINGS.txt")) {
            for line in text.lines() {
                let line = line.trim();
                if let Some(rest) = line.strip_prefix("known:") {
                    let mut prop = String::new();
                    let mut sig = String::new();
                    let mut words = rest.split_whitespace();
                    let mut desc = vec![];
                    for w in words.by_ref() {
                        if let Some(p) = w.strip_prefix("property=") {
                            prop = p.to_string();
                        } else if let Some(s) = w.strip_prefix("sig=") {
                            sig = s.to_string();
                        } else {
                            desc.push(w);
                        }
                    }
                    if !prop.is_empty() && !sig.is_empty() {
                        known.push((prop, sig, desc.join(" ")));
                    }
                }
            }
        }
        KnownFindings { known }
    }
    pub fn lookup(&self, prop: &str, sig: &str) -> Option<&str> {
        self.known
            .iter()
            .find(|(p, s, _)| p == prop && s == sig)
            .map(|(_, _, d)| d.as_str())
    }
}

enum Msg {
    Line(usize, String),
    Eof(usize),
}

struct Child {
    proc: std::process::Child,
    shard: usize,
    last_begin: Option<u64>,
    cpu_at_begin: f64,
    done: bool,
    got_counters: bool,
    started: Instant,
}

fn read_sub(scratch: &Path, shard: usize) -> u64 {
    std::fs::read(scratch.join(format!("cur-{shard}.bin")))
        .ok()
        .and_then(|b| b.get(..8).map(|x| u64::from_le_bytes(x.try_into().unwrap())))
        .unwrap_or(0)
}

fn cpu_seconds(pid: u32) -> Option<f64> {
    let s = std::fs::read_to_string(format!("/proc/{pid}/stat")).ok()?;
    let rest = &s[s.rfind(')')? + 2..];
    let f: Vec<&str> = rest.split_whitespace().collect();
    let ut: f64 = f.get(11)?.parse().ok()?;
    let st: f64 = f.get(12)?.parse().ok()?;
    Some((ut + st) / 100.0)
}

pub struct CheckOptions {
    pub prop: String,
    pub tier: Tier,
    pub seed: u64,
    pub only_case: Option<u64>,
}

fn spawn_worker(
    exe: &Path,
    o: &CheckOptions,
    shard: usize,
    nshards: usize,
    scratch: &Path,
    from: u64,
    dev: bool,
    tx: &mpsc::Sender<Msg>,
) -> std::io::Result<Child> {
    let mut cmd = Command::new(exe);
    cmd.arg("worker")
        .arg(&o.prop)
        .arg(o.tier.name())
        .arg(o.seed.to_string())
        .arg(shard.to_string())
        .arg(nshards.to_string())
        .arg(scratch)
        .arg(from.to_string())
        .arg(if dev { "1" } else { "0" })
        .arg(o.only_case.map(|c| c.to_string()).unwrap_or_else(|| "-".to_string()))
        .stdin(Stdio::null())
        .stdout(Stdio::piped())
        .stderr(Stdio::piped());
    crate::util::limit_address_space(&mut cmd, 12 << 30);
    let mut proc = cmd.spawn()?;
    let stdout = proc.stdout.take().unwrap();
    let tx2 = tx.clone();
    std::thread::spawn(move || {
        let r = BufReader::new(stdout);
        for line in r.lines() {
            match line {
                Ok(l) => {
                    if tx2.send(Msg::Line(shard, l)).is_err() {
                        return;
                    }
                }
                Err(_) => break,
            }
        }
        let _ = tx2.send(Msg::Eof(shard));
    });
    // drain stderr into a file in scratch (kept small)
    let stderr = proc.stderr.take().unwrap();
    let errpath = scratch.join(format!("stderr-{shard}.txt"));
    std::thread::spawn(move || {
        let mut r = BufReader::new(stderr);
        let mut kept = Vec::new();
        let mut buf = [0u8; 4096];
        use std::io::Read;
        while let Ok(n) = r.read(&mut buf) {
            if n == 0 {
                break;
            }
            if kept.len() < 1 << 16 {
                kept.extend_from_slice(&buf[..n]);
            }
        }
        let _ = std::fs::OpenOptions::new()
            .create(true)
            .append(true)
            .open(errpath)
            .and_then(|mut f| f.write_all(&kept));
    });
    Ok(Child {
        proc,
        shard,
        last_begin: None,
        cpu_at_begin: 0.0,
        done: false,
        got_counters: false,
        started: Instant::now(),
    })
}

pub fn dev_worker_exe(root: &Path) -> PathBuf {
    root.join("harness/target-dev/debug/kv")
}

/// The worker built with the profile "plain" (kiki without debug assertions and overflow checks).
pub fn plain_worker_exe(root: &Path) -> PathBuf {
    root.join("harness/target/plain/kv")
}

/// Every fourth shard runs through the plain-profile worker.
fn exe_for_shard(default_exe: &Path, plain_exe: &Path, dev: bool, shard: usize) -> PathBuf {
    if !dev && shard % 4 == 3 && plain_exe.exists() {
        plain_exe.to_path_buf()
    } else {
        default_exe.to_path_buf()
    }
}

/// Run a whole check.  Returns the process exit code.
pub fn check_main(engine: &dyn Engine, o: &CheckOptions) -> i32 {
    let t0 = Instant::now();
    let root = verif_root();
    let known = KnownFindings::load(&root);
    let exe = if engine.use_dev_worker(&o.prop) {
        dev_worker_exe(&root)
    } else {
        std::env::current_exe().expect("current_exe")
    };
    if !exe.exists() {
        println!(
            "INCONCLUSIVE property={} reason=worker binary {} missing",
            o.prop,
            exe.display()
        );
        return 2;
    }
    if std::env::var("KV_REPLAY").is_err() {
        // replay files are outputs of a run: start from a clean slate
        let _ = std::fs::remove_dir_all(root.join("replays").join(&o.prop));
    }
    // oracle self-tests: a reference model that fails them must not produce verdicts
    let st = crate::engines::selftest_failures();
    if !st.is_empty() {
        for f in st.iter().take(5) {
            println!("INCONCLUSIVE property={} reason=oracle self-test failed: {f}", o.prop);
        }
        return 2;
    }
    let total = engine.total_cases(&o.prop, o.tier);
    let ncpu = std::thread::available_parallelism().map(|n| n.get()).unwrap_or(4);
    let nshards = std::env::var("KV_JOBS")
        .ok()
        .and_then(|s| s.parse().ok())
        .unwrap_or(ncpu.min(16))
        .min(total.max(1) as usize)
        .max(1);
    let scratch = crate::util::make_scratch_dir(&format!("kv-{}-{}", o.prop, std::process::id()));
    let (tx, rx) = mpsc::channel::<Msg>();
    let mut agg = Agg::default();
    let mut children: Vec<Child> = vec![];
    let dev = engine.use_dev_worker(&o.prop);
    let plain = plain_worker_exe(&root);
    if !plain.exists() {
        agg.inconclusive.push(format!("worker binary {} (kiki without debug assertions) missing", plain.display()));
    }
    for shard in 0..nshards {
        match spawn_worker(&exe_for_shard(&exe, &plain, dev, shard), o, shard, nshards, &scratch, 0, dev, &tx) {
            Ok(c) => children.push(c),
            Err(e) => agg.inconclusive.push(format!("cannot spawn worker: {e}")),
        }
    }
    let cpu_budget = engine.cpu_budget_s(&o.prop, o.tier) as f64;
    let wall_limit = Duration::from_secs(match o.tier {
        Tier::Quick => 45 * 60,
        Tier::Thorough => 6 * 3600,
    });
    let mut respawns = 0usize;
    let mut first_violation_at: Option<Instant> = None;
    loop {
        if children.iter().all(|c| c.done) {
            break;
        }
        // Once a violation is on record the verdict is settled; the remaining shards get ten more minutes
        // (more signatures for the report), then the run ends.  On a tree that holds the property this
        // never triggers.  (A fault can make single cases burn their whole CPU budget, again and again.)
        if !agg.violations.is_empty() && first_violation_at.is_none() {
            first_violation_at = Some(Instant::now());
        }
        if let Some(t) = first_violation_at {
            if t.elapsed() > Duration::from_secs(600) {
                for c in children.iter_mut().filter(|c| !c.done) {
                    let _ = c.proc.kill();
                    let _ = c.proc.wait();
                    c.done = true;
                }
                *agg.counters.entry("stopped-early:ten-minutes-after-the-first-violation".to_string()).or_insert(0) += 1;
                break;
            }
        }
        match rx.recv_timeout(Duration::from_millis(500)) {
            Ok(Msg::Line(shard, line)) => {
                let c = children.iter_mut().find(|c| c.shard == shard && !c.done);
                let Some(c) = c else { continue };
                if let Some(rest) = line.strip_prefix("B ") {
                    c.last_begin = rest.trim().parse().ok();
                    c.cpu_at_begin = cpu_seconds(c.proc.id()).unwrap_or(c.cpu_at_begin);
                } else if let Some(rest) = line.strip_prefix("V ") {
                    if let Ok(v) = serde_json::from_str::<Value>(rest) {
                        agg.violations.push(v);
                    }
                } else if let Some(rest) = line.strip_prefix("I ") {
                    if agg.inconclusive.len() < 50 {
                        agg.inconclusive.push(rest.to_string());
                    }
                } else if let Some(rest) = line.strip_prefix("C ") {
                    if let Ok(v) = serde_json::from_str::<Value>(rest) {
                        agg.merge(&v);
                        c.got_counters = true;
                    }
                }
            }
            Ok(Msg::Eof(shard)) => {
                let pos = children.iter().position(|c| c.shard == shard && !c.done);
                let Some(pos) = pos else { continue };
                let status = children[pos].proc.wait();
                children[pos].done = true;
                if !children[pos].got_counters {
                    // the worker died
                    let how = match &status {
                        Ok(s) => {
                            use std::os::unix::process::ExitStatusExt;
                            match s.signal() {
                                Some(sig) => format!("signal {sig}"),
                                None => format!("exit status {:?}", s.code()),
                            }
                        }
                        Err(e) => format!("wait failed: {e}"),
                    };
                    let at = children[pos].last_begin;
                    let stderr_tail = std::fs::read_to_string(scratch.join(format!("stderr-{shard}.txt")))
                        .unwrap_or_default();
                    let tail: String = stderr_tail.chars().rev().take(600).collect::<String>().chars().rev().collect();
                    let sub = read_sub(&scratch, shard);
                    agg.aborts.push(json!({"case": at, "sub": sub, "how": how, "stderr_tail": tail}));
                    if let Some(at) = at {
                        respawns += 1;
                        if respawns > 200 {
                            agg.inconclusive.push("too many worker deaths".to_string());
                        } else {
                            match spawn_worker(&exe_for_shard(&exe, &plain, dev, shard), o, shard, nshards, &scratch, at + 1, dev, &tx) {
                                Ok(c) => children.push(c),
                                Err(e) => agg.inconclusive.push(format!("cannot respawn worker: {e}")),
                            }
                        }
                    } else {
                        agg.inconclusive
                            .push(format!("worker {shard} died before its first case ({how}): {tail}"));
                    }
                }
            }
            Err(mpsc::RecvTimeoutError::Timeout) => {}
            Err(mpsc::RecvTimeoutError::Disconnected) => break,
        }
        // CPU-time rule and wall-clock watchdog
        for c in children.iter_mut().filter(|c| !c.done) {
            if let Some(cpu) = cpu_seconds(c.proc.id()) {
                if c.last_begin.is_some() && cpu - c.cpu_at_begin > cpu_budget {
                    // logical-time verdict: this case burnt its CPU budget
                    let _ = c.proc.kill();
                    let sub = read_sub(&scratch, c.shard);
                    agg.aborts.push(json!({"case": c.last_begin, "sub": sub, "how": format!("cpu budget of {cpu_budget}s exhausted"), "stderr_tail": ""}));
                    // Eof will follow and trigger the respawn; mark so the death is not reported twice
                    c.last_begin = c.last_begin.map(|x| x);
                    c.got_counters = false;
                }
            }
            if c.started.elapsed() > wall_limit {
                let _ = c.proc.kill();
                agg.inconclusive.push("wall-clock watchdog fired".to_string());
            }
        }
    }
    // dedupe aborts recorded twice (cpu kill + eof)
    let mut seen_abort: BTreeSet<String> = BTreeSet::new();
    agg.aborts.retain(|a| {
        let key = format!("{}", a["case"]);
        let is_kill = a["how"].as_str().map(|h| h.starts_with("signal 9")).unwrap_or(false);
        if is_kill && seen_abort.contains(&key) {
            return false;
        }
        seen_abort.insert(key)
    });

    // distinct non-trivial cases: union of the hash files
    let mut hashes: Vec<u64> = vec![];
    for shard in 0..nshards {
        if let Ok(bytes) = std::fs::read(scratch.join(format!("hashes-{shard}.bin"))) {
            for ch in bytes.chunks_exact(8) {
                hashes.push(u64::from_le_bytes(ch.try_into().unwrap()));
            }
        }
    }
    hashes.sort_unstable();
    hashes.dedup();
    agg.distinct_nontrivial = hashes.len() as u64;
    drop(hashes);

    // aborts -> violations of a totality property, otherwise masked upstream
    for a in agg.aborts.clone() {
        let case = a["case"].as_u64();
        let sub = a["sub"].as_u64().unwrap_or(0);
        let desc = case
            .map(|c| engine.describe_case(&o.prop, o.tier, o.seed, c, sub))
            .unwrap_or(Value::Null);
        if engine.abort_is_violation(&o.prop) {
            let how = a["how"].as_str().unwrap_or("").to_string();
            let sig = crate::util::abort_signature(&how, a["stderr_tail"].as_str().unwrap_or(""), &desc);
            agg.violations.push(json!({
                "sig": sig, "what": format!("worker died while running the case: {how}"),
                "case": case, "witness": {"input": desc, "sub": sub, "how": how, "stderr_tail": a["stderr_tail"]},
            }));
        } else {
            *agg.counters.entry("masked_upstream:abort".to_string()).or_insert(0) += 1;
        }
    }

    let _ = std::fs::remove_dir_all(&scratch);

    // verdict
    let mut known_lines: BTreeMap<String, (String, u64)> = BTreeMap::new();
    let mut new_viol: BTreeMap<String, Vec<Value>> = BTreeMap::new();
    for v in &agg.violations {
        let sig = v["sig"].as_str().unwrap_or("?").to_string();
        if let Some(desc) = known.lookup(&o.prop, &sig) {
            let e = known_lines.entry(sig).or_insert((desc.to_string(), 0));
            e.1 += 1;
        } else {
            new_viol.entry(sig).or_default().push(v.clone());
        }
    }
    let mut reasons = agg.inconclusive.clone();
    let replay = o.only_case.is_some();
    let wall = t0.elapsed().as_secs_f64();
    if !replay {
        // floors and the evidence file describe whole runs, not the replay of one case
        reasons.extend(engine.floors(&o.prop, o.tier, &agg));
        write_evidence(engine, o, &agg, &root, wall, new_viol.len(), &known_lines);
    }

    println!(
        "property={} tier={} seed={} cases={} evaluations={} distinct_nontrivial={} wall_s={:.1}",
        o.prop, o.tier.name(), o.seed, total, agg.evaluations, agg.distinct_nontrivial, wall
    );
    for (k, v) in &agg.counters {
        println!("  {k} = {v}");
    }
    for (k, v) in &agg.maxes {
        println!("  max {k} = {v}");
    }
    for (k, v) in &agg.sets {
        println!("  |{k}| = {}", v.len());
    }
    for (sig, (desc, n)) in &known_lines {
        println!("KNOWN-FINDING: property={} sig={} {} (observed {} times)", o.prop, sig, desc, n);
    }
    if !new_viol.is_empty() {
        let dir = root.join("replays").join(&o.prop);
        let _ = std::fs::create_dir_all(&dir);
        let n_sigs = new_viol.len();
        for (k, (sig, vs)) in new_viol.iter().enumerate() {
            if k >= 12 {
                println!("  ... and {} more distinct violation signatures (not listed)", n_sigs - k);
                break;
            }
            let v = &vs[0];
            let fname: String = sig
                .chars()
                .map(|c| if c.is_ascii_alphanumeric() || c == '-' || c == '_' || c == '.' { c } else { '_' })
                .take(80)
                .collect();
            let path = dir.join(format!("{}-case{}.json", fname, v["case"]));
            let rec = json!({
                "property": o.prop, "engine": engine.name(), "tier": o.tier.name(), "seed": o.seed,
                "case": v["case"], "sig": sig, "what": v["what"], "witness": v["witness"],
                "occurrences_in_this_run": vs.len(),
            });
            let _ = std::fs::write(&path, serde_json::to_string_pretty(&rec).unwrap_or_default());
            println!("  violation sig={} what={} ({} occurrences)", sig, v["what"], vs.len());
            println!("VIOLATION property={} replay={}", o.prop, path.display());
        }
        return 1;
    }
    if !reasons.is_empty() {
        for r in reasons.iter().take(10) {
            println!("INCONCLUSIVE property={} reason={}", o.prop, r);
        }
        return 2;
    }
    if replay {
        println!("REPLAY property={} case={:?}: no violation observed on the current tree", o.prop, o.only_case);
        return 0;
    }
    println!("HELD property={} on everything explored", o.prop);
    0
}

fn write_evidence(
    engine: &dyn Engine,
    o: &CheckOptions,
    agg: &Agg,
    root: &Path,
    wall: f64,
    new_violations: usize,
    known_lines: &BTreeMap<String, (String, u64)>,
) {
    let mut cov = Map::new();
    cov.insert("evaluations".into(), json!(agg.evaluations));
    cov.insert("distinct_nontrivial".into(), json!(agg.distinct_nontrivial));
    cov.insert("rule".into(), json!(engine.rule(&o.prop)));
    let mut samples: Vec<Value> = vec![];
    let mut labels = BTreeSet::new();
    for s in &agg.samples {
        let l = s["kind"].as_str().unwrap_or("").to_string();
        if labels.insert(l) && samples.len() < 8 {
            samples.push(s.clone());
        }
    }
    cov.insert("samples".into(), Value::Array(samples));
    cov.insert("exhaustive".into(), json!(false));
    cov.insert("counters".into(), json!(agg.counters));
    cov.insert("maxima".into(), json!(agg.maxes));
    let set_sizes: BTreeMap<String, usize> = agg.sets.iter().map(|(k, v)| (k.clone(), v.len())).collect();
    cov.insert("distinct_observed".into(), json!(set_sizes));
    let small_sets: BTreeMap<String, Vec<&String>> = agg
        .sets
        .iter()
        .filter(|(_, v)| v.len() <= 40)
        .map(|(k, v)| (k.clone(), v.iter().collect()))
        .collect();
    cov.insert("observed_values".into(), json!(small_sets));
    cov.insert("worker_aborts".into(), json!(agg.aborts.len()));
    cov.insert(
        "known_findings_observed".into(),
        json!(known_lines.iter().map(|(k, (d, n))| json!({"sig": k, "what": d, "occurrences": n})).collect::<Vec<_>>()),
    );
    if !agg.inconclusive.is_empty() {
        cov.insert("inconclusive_reasons".into(), json!(agg.inconclusive.iter().take(10).collect::<Vec<_>>()));
    }
    for (k, v) in engine.extra_coverage(&o.prop, o.tier, agg) {
        cov.insert(k, v);
    }
    let ev = json!({
        "property_id": o.prop,
        "tier": o.tier.name(),
        "seed": o.seed,
        "level": engine.level(&o.prop),
        "coverage": Value::Object(cov),
        "assumptions": engine.assumptions(&o.prop),
        "wall_s": (wall * 10.0).round() / 10.0,
        "violations": new_violations,
    });
    let dir = root.join("evidence");
    let _ = std::fs::create_dir_all(&dir);
    let path = dir.join(format!("{}.json", o.prop));
    let _ = std::fs::write(path, serde_json::to_string_pretty(&ev).unwrap_or_default() + "\n");
}
