//! R-rust-skim: a token-level reader for emitted Rust text.  It ignores
//! whitespace, comments and line structure, so cosmetic changes are not
//! alarms; text it cannot read yields `Err` (=> inconclusive), never a verdict.

use std::collections::BTreeMap;

#[derive(Clone, Debug, PartialEq, Eq)]
pub enum Tok {
    Ident(String),
    Num(u64),
    /// Punctuation, e.g. "::", "->", "=>", "{".
    P(&'static str),
    /// A whole `#[...]` / `#![...]` attribute, verbatim.
    Attr(String),
    Str(String),
}

impl Tok {
    pub fn is_p(&self, p: &str) -> bool {
        matches!(self, Tok::P(x) if *x == p)
    }
    pub fn ident(&self) -> Option<&str> {
        match self {
            Tok::Ident(s) => Some(s),
            _ => None,
        }
    }
    pub fn is_ident(&self, s: &str) -> bool {
        matches!(self, Tok::Ident(x) if x == s)
    }
    pub fn text(&self) -> String {
        match self {
            Tok::Ident(s) => s.clone(),
            Tok::Num(n) => n.to_string(),
            Tok::P(p) => p.to_string(),
            Tok::Attr(a) => a.clone(),
            Tok::Str(s) => s.clone(),
        }
    }
}

const PUNCT2: &[&str] = &["::", "->", "=>"];
const PUNCT1: &[&str] = &[
    "{", "}", "(", ")", "[", "]", "<", ">", ",", ";", ":", "=", "&", "*", "!", ".", "|", "?", "'", "#", "-", "+", "/", "@", "$", "%", "^", "~",
];

/// Tokenise emitted Rust text.  Each token comes with its byte offset.
pub fn lex(text: &str) -> Result<Vec<(Tok, usize)>, String> {
    let b = text.as_bytes();
    let mut i = 0;
    let mut out = vec![];
    while i < b.len() {
        let c = b[i];
        if c.is_ascii_whitespace() {
            i += 1;
            continue;
        }
        if c >= 0x80 {
            // non-ASCII outside attributes/comments: Unicode whitespace is legal, anything else is not expected
            let ch = text[i..].chars().next().unwrap();
            if ch.is_whitespace() {
                i += ch.len_utf8();
                continue;
            }
            return Err(format!("unexpected non-ASCII character {ch:?} at byte {i}"));
        }
        if c == b'/' && i + 1 < b.len() && b[i + 1] == b'/' {
            while i < b.len() && b[i] != b'\n' {
                i += 1;
            }
            continue;
        }
        if c == b'#' && (text[i..].starts_with("#[") || text[i..].starts_with("#![")) {
            // Kiki's own bracket rule: count brackets of all three kinds up to the matching closer.
            let start = i;
            let mut depth = 0i64;
            let mut j = i;
            let mut closed = false;
            for (off, ch) in text[i..].char_indices() {
                match ch {
                    '(' | '[' | '{' => depth += 1,
                    ')' | ']' | '}' => {
                        depth -= 1;
                        if depth == 0 {
                            j = i + off + ch.len_utf8();
                            closed = true;
                            break;
                        }
                    }
                    '\n' => break,
                    _ => {}
                }
            }
            if !closed {
                return Err(format!("unterminated attribute at byte {start}"));
            }
            out.push((Tok::Attr(text[start..j].to_string()), start));
            i = j;
            continue;
        }
        if c.is_ascii_alphabetic() || c == b'_' {
            let start = i;
            while i < b.len() && (b[i].is_ascii_alphanumeric() || b[i] == b'_') {
                i += 1;
            }
            out.push((Tok::Ident(text[start..i].to_string()), start));
            continue;
        }
        if c.is_ascii_digit() {
            let start = i;
            while i < b.len() && b[i].is_ascii_digit() {
                i += 1;
            }
            let n: u64 = text[start..i].parse().map_err(|_| format!("bad number at {start}"))?;
            out.push((Tok::Num(n), start));
            continue;
        }
        if c == b'"' {
            let start = i;
            i += 1;
            while i < b.len() && b[i] != b'"' {
                if b[i] == b'\\' {
                    i += 1;
                }
                i += 1;
            }
            i += 1;
            if i > b.len() {
                return Err("unterminated string".into());
            }
            out.push((Tok::Str(text[start..i].to_string()), start));
            continue;
        }
        if i + 1 < b.len() {
            if let Some(p) = PUNCT2.iter().find(|p| text[i..].starts_with(**p)) {
                out.push((Tok::P(p), i));
                i += 2;
                continue;
            }
        }
        if let Some(p) = PUNCT1.iter().find(|p| p.as_bytes()[0] == c) {
            out.push((Tok::P(p), i));
            i += 1;
            continue;
        }
        return Err(format!("unexpected character {:?} at byte {i}", c as char));
    }
    Ok(out)
}

#[derive(Clone, Copy, Debug, PartialEq, Eq)]
pub enum ItemKind {
    Enum,
    Struct,
    Fn,
    Impl,
    Static,
}

#[derive(Clone, Debug)]
pub struct Item {
    pub attrs: Vec<String>,
    pub is_pub: bool,
    pub kind: ItemKind,
    /// Name (for impl: empty).
    pub name: String,
    /// Tokens between the name (or `impl`) and the body.
    pub header: Vec<Tok>,
    /// Tokens inside the outermost body delimiters (for a tuple struct: inside the parentheses;
    /// for a static: the initialiser expression).
    pub body: Vec<Tok>,
    /// '{' , '(' , ';' (unit struct), '=' (static)
    pub body_delim: char,
    /// Byte offset of the first token of the item (first attribute if any).
    pub offset: usize,
    /// Byte offset of the `pub`/keyword token.
    pub decl_offset: usize,
}

fn closing(open: &str) -> &'static str {
    match open {
        "{" => "}",
        "(" => ")",
        "[" => "]",
        _ => unreachable!(),
    }
}

/// Index just past the group that opens at `toks[i]`.
fn skip_group(toks: &[(Tok, usize)], i: usize) -> Result<usize, String> {
    let mut stack: Vec<&'static str> = vec![];
    let mut j = i;
    loop {
        let Some((t, _)) = toks.get(j) else {
            return Err("unbalanced delimiters".into());
        };
        if let Tok::P(p) = t {
            match *p {
                "{" | "(" | "[" => stack.push(closing(p)),
                "}" | ")" | "]" => {
                    if stack.pop() != Some(*p) {
                        return Err(format!("mismatched delimiter {p}"));
                    }
                    if stack.is_empty() {
                        return Ok(j + 1);
                    }
                }
                _ => {}
            }
        }
        j += 1;
    }
}

pub fn items(toks: &[(Tok, usize)]) -> Result<Vec<Item>, String> {
    let mut out = vec![];
    let mut i = 0;
    while i < toks.len() {
        let offset = toks[i].1;
        let mut attrs = vec![];
        while let Some((Tok::Attr(a), _)) = toks.get(i) {
            attrs.push(a.clone());
            i += 1;
        }
        if i >= toks.len() {
            if attrs.iter().all(|a| a.starts_with("#![")) {
                break;
            }
            return Err("attributes at end of file".into());
        }
        if attrs.iter().any(|a| a.starts_with("#![")) {
            // inner attributes belong to the module; drop them from the following item
            attrs.retain(|a| !a.starts_with("#!["));
        }
        let decl_offset = toks[i].1;
        let mut is_pub = false;
        if toks[i].0.is_ident("pub") {
            is_pub = true;
            i += 1;
            // `pub(crate)`, `pub(super)`, `pub(in path)`: a restricted visibility is not `pub`
            if toks.get(i).map(|t| t.0.is_p("(")).unwrap_or(false)
                && toks.get(i + 1).map(|t| ["crate", "super", "self", "in"].iter().any(|k| t.0.is_ident(k))).unwrap_or(false)
            {
                is_pub = false;
                while i < toks.len() && !toks[i].0.is_p(")") {
                    i += 1;
                }
                i += 1;
            }
        }
        let kw = toks.get(i).and_then(|t| t.0.ident()).ok_or_else(|| format!("expected item keyword at byte {}", toks.get(i).map(|t| t.1).unwrap_or(0)))?;
        let kind = match kw {
            "enum" => ItemKind::Enum,
            "struct" => ItemKind::Struct,
            "fn" => ItemKind::Fn,
            "impl" => ItemKind::Impl,
            "static" => ItemKind::Static,
            other => return Err(format!("unexpected top-level keyword {other:?}")),
        };
        i += 1;
        let mut name = String::new();
        if kind != ItemKind::Impl {
            name = toks.get(i).and_then(|t| t.0.ident()).ok_or("expected item name")?.to_string();
            i += 1;
        }
        let mut header = vec![];
        let (body, delim);
        match kind {
            ItemKind::Static => {
                while i < toks.len() && !toks[i].0.is_p("=") {
                    header.push(toks[i].0.clone());
                    i += 1;
                }
                i += 1; // '='
                let start = i;
                if !toks.get(i).map(|t| t.0.is_p("[")).unwrap_or(false) {
                    return Err("static initialiser is not an array".into());
                }
                let end = skip_group(toks, i)?;
                body = toks[start..end].iter().map(|t| t.0.clone()).collect();
                i = end;
                if !toks.get(i).map(|t| t.0.is_p(";")).unwrap_or(false) {
                    return Err("expected ; after static".into());
                }
                i += 1;
                delim = '=';
            }
            ItemKind::Struct => {
                match toks.get(i).map(|t| &t.0) {
                    Some(Tok::P(";")) => {
                        body = vec![];
                        delim = ';';
                        i += 1;
                    }
                    Some(Tok::P("(")) => {
                        let end = skip_group(toks, i)?;
                        body = toks[i + 1..end - 1].iter().map(|t| t.0.clone()).collect();
                        i = end;
                        if !toks.get(i).map(|t| t.0.is_p(";")).unwrap_or(false) {
                            return Err("expected ; after tuple struct".into());
                        }
                        i += 1;
                        delim = '(';
                    }
                    Some(Tok::P("{")) => {
                        let end = skip_group(toks, i)?;
                        body = toks[i + 1..end - 1].iter().map(|t| t.0.clone()).collect();
                        i = end;
                        delim = '{';
                    }
                    _ => return Err(format!("unreadable struct {name}")),
                }
            }
            _ => {
                // header up to the first '{' outside parentheses/brackets
                let mut depth = 0i32;
                loop {
                    let Some((t, _)) = toks.get(i) else {
                        return Err(format!("item {name} has no body"));
                    };
                    if let Tok::P(p) = t {
                        match *p {
                            "(" | "[" => depth += 1,
                            ")" | "]" => depth -= 1,
                            "{" if depth == 0 => break,
                            _ => {}
                        }
                    }
                    header.push(t.clone());
                    i += 1;
                }
                let end = skip_group(toks, i)?;
                body = toks[i + 1..end - 1].iter().map(|t| t.0.clone()).collect();
                i = end;
                delim = '{';
            }
        }
        out.push(Item {
            attrs,
            is_pub,
            kind,
            name,
            header,
            body,
            body_delim: delim,
            offset,
            decl_offset,
        });
    }
    Ok(out)
}

/// Split a token list at top-level commas (nesting by all bracket kinds and `<>`).
pub fn split_commas(toks: &[Tok]) -> Vec<Vec<Tok>> {
    let mut out = vec![];
    let mut cur = vec![];
    let mut depth = 0i32;
    for t in toks {
        if let Tok::P(p) = t {
            match *p {
                "(" | "[" | "{" | "<" => depth += 1,
                ")" | "]" | "}" | ">" => depth -= 1,
                "," if depth == 0 => {
                    out.push(std::mem::take(&mut cur));
                    continue;
                }
                _ => {}
            }
        }
        cur.push(t.clone());
    }
    if !cur.is_empty() {
        out.push(cur);
    }
    out
}

pub fn toks_text(toks: &[Tok]) -> String {
    toks.iter().map(|t| t.text()).collect::<Vec<_>>().join(" ")
}

/// `enum X { A = 0, B = 1, }` -> names indexed by discriminant.
pub fn discriminant_enum(item: &Item) -> Result<Vec<String>, String> {
    let mut map = BTreeMap::new();
    for v in split_commas(&item.body) {
        match v.as_slice() {
            [Tok::Ident(n), Tok::P("="), Tok::Num(k)] => {
                if map.insert(*k, n.clone()).is_some() {
                    return Err(format!("duplicate discriminant {k} in {}", item.name));
                }
            }
            _ => return Err(format!("enum {} is not a plain discriminant enum: {}", item.name, toks_text(&v))),
        }
    }
    let mut out = vec![];
    for (i, (k, n)) in map.into_iter().enumerate() {
        if k != i as u64 {
            return Err(format!("discriminants of {} are not 0..n", item.name));
        }
        out.push(n);
    }
    Ok(out)
}

#[derive(Clone, Copy, Debug, PartialEq, Eq)]
pub enum EAct {
    Shift(usize),
    Reduce(usize),
    Accept,
    Err,
}

#[derive(Clone, Debug)]
pub struct Tables {
    pub start: usize,
    pub n_states: usize,
    /// Names of the action columns (terminal kinds, then the end-of-input kind).
    pub action_cols: Vec<String>,
    pub goto_cols: Vec<String>,
    pub action: Vec<Vec<EAct>>,
    pub goto: Vec<Vec<Option<usize>>>,
    pub state_enum: String,
    pub action_enum: String,
    pub rule_kind_enum: String,
    pub qkind_enum: String,
    pub nkind_enum: String,
    pub node_enum: String,
    pub n_rule_kinds: usize,
    /// rule kind index -> name of the reduce function dispatched to
    pub reduce_fn_of_rule: Vec<String>,
}

fn find<'a>(items: &'a [Item], kind: ItemKind, name: &str) -> Result<&'a Item, String> {
    let mut it = items.iter().filter(|i| i.kind == kind && i.name == name);
    let first = it.next().ok_or_else(|| format!("no {kind:?} named {name}"))?;
    if it.next().is_some() {
        return Err(format!("several {kind:?} named {name}"));
    }
    Ok(first)
}

fn variant_index(t: &[Tok], enum_name: &str, prefix: &str) -> Option<usize> {
    // <enum_name> :: <prefix><k>
    match t {
        [Tok::Ident(e), Tok::P("::"), Tok::Ident(v)] if e == enum_name => v.strip_prefix(prefix)?.parse().ok(),
        _ => None,
    }
}

/// Parameters `a: X, b: Y` of a fn header `( ... ) -> Ret`.
fn fn_sig(header: &[Tok]) -> Result<(Vec<(String, Vec<Tok>)>, Vec<Tok>), String> {
    let open = header.iter().position(|t| t.is_p("(")).ok_or("fn without (")?;
    let mut depth = 0;
    let mut close = None;
    for (i, t) in header.iter().enumerate().skip(open) {
        if t.is_p("(") {
            depth += 1;
        } else if t.is_p(")") {
            depth -= 1;
            if depth == 0 {
                close = Some(i);
                break;
            }
        }
    }
    let close = close.ok_or("fn without )")?;
    let mut params = vec![];
    for p in split_commas(&header[open + 1..close]) {
        let colon = p.iter().position(|t| t.is_p(":")).ok_or("param without :")?;
        let name = toks_text(&p[..colon]);
        params.push((name, p[colon + 1..].to_vec()));
    }
    let mut ret = vec![];
    if header.get(close + 1).map(|t| t.is_p("->")).unwrap_or(false) {
        let mut j = close + 2;
        while j < header.len() && !header[j].is_ident("where") {
            ret.push(header[j].clone());
            j += 1;
        }
    }
    Ok((params, ret))
}

fn single_ident(t: &[Tok]) -> Result<String, String> {
    match t {
        [Tok::Ident(s)] => Ok(s.clone()),
        _ => Err(format!("expected a plain type name, found {}", toks_text(t))),
    }
}

pub fn tables(items: &[Item]) -> Result<Tables, String> {
    let get_action = find(items, ItemKind::Fn, "get_action")?;
    let (params, ret) = fn_sig(&get_action.header)?;
    if params.len() != 2 {
        return Err("get_action: expected two parameters".into());
    }
    let state_enum = single_ident(&params[0].1)?;
    let qkind_enum = single_ident(&params[1].1)?;
    let action_enum = single_ident(&ret)?;
    // body: TABLE[<p0> as usize][<p1> as usize]
    let action_table_name = match get_action.body.as_slice() {
        [Tok::Ident(t), Tok::P("["), Tok::Ident(a), Tok::Ident(as1), Tok::Ident(u1), Tok::P("]"), Tok::P("["), Tok::Ident(b), Tok::Ident(as2), Tok::Ident(u2), Tok::P("]")]
            if *a == params[0].0 && *b == params[1].0 && as1 == "as" && as2 == "as" && u1 == "usize" && u2 == "usize" =>
        {
            t.clone()
        }
        _ => return Err(format!("get_action body not of the form T[state][kind]: {}", toks_text(&get_action.body))),
    };
    let get_goto = find(items, ItemKind::Fn, "get_goto")?;
    let (gparams, gret) = fn_sig(&get_goto.header)?;
    if gparams.len() != 2 || single_ident(&gparams[0].1)? != state_enum {
        return Err("get_goto: unexpected parameters".into());
    }
    let nkind_enum = single_ident(&gparams[1].1)?;
    let expect_ret = [Tok::Ident("Option".into()), Tok::P("<"), Tok::Ident(state_enum.clone()), Tok::P(">")];
    if gret != expect_ret {
        return Err("get_goto: unexpected return type".into());
    }
    let goto_table_name = match get_goto.body.as_slice() {
        [Tok::Ident(t), Tok::P("["), Tok::Ident(a), Tok::Ident(as1), Tok::Ident(u1), Tok::P("]"), Tok::P("["), Tok::Ident(b), Tok::Ident(as2), Tok::Ident(u2), Tok::P("]")]
            if *a == gparams[0].0 && *b == gparams[1].0 && as1 == "as" && as2 == "as" && u1 == "usize" && u2 == "usize" =>
        {
            t.clone()
        }
        _ => return Err("get_goto body not of the form T[state][kind]".into()),
    };

    let states = discriminant_enum(find(items, ItemKind::Enum, &state_enum)?)?;
    for (i, s) in states.iter().enumerate() {
        if *s != format!("S{i}") {
            return Err(format!("state variant {s} has discriminant {i}"));
        }
    }
    let n_states = states.len();
    let action_cols = discriminant_enum(find(items, ItemKind::Enum, &qkind_enum)?)?;
    let goto_cols = discriminant_enum(find(items, ItemKind::Enum, &nkind_enum)?)?;

    // Action enum: Shift(State), Reduce(RuleKind), Accept, Err
    let action_item = find(items, ItemKind::Enum, &action_enum)?;
    let avs = split_commas(&action_item.body);
    let rule_kind_enum = match avs.as_slice() {
        [s, r, a, e]
            if matches!(s.as_slice(), [Tok::Ident(n), Tok::P("("), Tok::Ident(t), Tok::P(")")] if n == "Shift" && *t == state_enum)
                && matches!(a.as_slice(), [Tok::Ident(n)] if n == "Accept")
                && matches!(e.as_slice(), [Tok::Ident(n)] if n == "Err") =>
        {
            match r.as_slice() {
                [Tok::Ident(n), Tok::P("("), Tok::Ident(t), Tok::P(")")] if n == "Reduce" => t.clone(),
                _ => return Err("unreadable Reduce variant".into()),
            }
        }
        _ => return Err(format!("unreadable action enum: {}", toks_text(&action_item.body))),
    };
    let rule_kinds = discriminant_enum(find(items, ItemKind::Enum, &rule_kind_enum)?)?;
    for (i, s) in rule_kinds.iter().enumerate() {
        if *s != format!("R{i}") {
            return Err(format!("rule kind variant {s} has discriminant {i}"));
        }
    }

    // tables
    let at = find(items, ItemKind::Static, &action_table_name)?;
    let gt = find(items, ItemKind::Static, &goto_table_name)?;
    let rows = |item: &Item| -> Result<Vec<Vec<Vec<Tok>>>, String> {
        let b = &item.body;
        if b.len() < 2 || !b[0].is_p("[") || !b[b.len() - 1].is_p("]") {
            return Err("table initialiser is not an array".into());
        }
        let mut out = vec![];
        for row in split_commas(&b[1..b.len() - 1]) {
            if row.len() < 2 || !row[0].is_p("[") || !row[row.len() - 1].is_p("]") {
                return Err("table row is not an array".into());
            }
            out.push(split_commas(&row[1..row.len() - 1]));
        }
        Ok(out)
    };
    // declared dimensions: : [[T; c]; r]
    let dims = |item: &Item| -> Option<(u64, u64)> {
        let nums: Vec<u64> = item.header.iter().filter_map(|t| if let Tok::Num(n) = t { Some(*n) } else { None }).collect();
        if nums.len() == 2 {
            Some((nums[0], nums[1]))
        } else {
            None
        }
    };
    let arows = rows(at)?;
    let grows = rows(gt)?;
    let (ac, ar) = dims(at).ok_or("action table dims")?;
    let (gc, gr) = dims(gt).ok_or("goto table dims")?;
    if ar as usize != n_states || gr as usize != n_states || arows.len() != n_states || grows.len() != n_states {
        return Err(format!(
            "table row counts ({}, {}, decl {ar}/{gr}) do not match the {n_states} state variants",
            arows.len(),
            grows.len()
        ));
    }
    if ac as usize != action_cols.len() || gc as usize != goto_cols.len() {
        return Err("table column counts do not match the kind enums".into());
    }
    let mut action = vec![];
    for row in &arows {
        if row.len() != action_cols.len() {
            return Err("action row length".into());
        }
        let mut r = vec![];
        for cell in row {
            // Action :: X [ ( E :: V ) ]
            let a = match cell.as_slice() {
                [Tok::Ident(e), Tok::P("::"), Tok::Ident(v)] if *e == action_enum && v == "Accept" => EAct::Accept,
                [Tok::Ident(e), Tok::P("::"), Tok::Ident(v)] if *e == action_enum && v == "Err" => EAct::Err,
                [Tok::Ident(e), Tok::P("::"), Tok::Ident(v), Tok::P("("), inner @ .., Tok::P(")")] if *e == action_enum => {
                    if v == "Shift" {
                        EAct::Shift(variant_index(inner, &state_enum, "S").ok_or("bad shift target")?)
                    } else if v == "Reduce" {
                        EAct::Reduce(variant_index(inner, &rule_kind_enum, "R").ok_or("bad reduce rule")?)
                    } else {
                        return Err(format!("unknown action {v}"));
                    }
                }
                _ => return Err(format!("unreadable action cell {}", toks_text(cell))),
            };
            if let EAct::Shift(s) = a {
                if s >= n_states {
                    return Err("shift target out of range".into());
                }
            }
            if let EAct::Reduce(k) = a {
                if k >= rule_kinds.len() {
                    return Err("reduce rule out of range".into());
                }
            }
            r.push(a);
        }
        action.push(r);
    }
    let mut goto = vec![];
    for row in &grows {
        if row.len() != goto_cols.len() {
            return Err("goto row length".into());
        }
        let mut r = vec![];
        for cell in row {
            let g = match cell.as_slice() {
                [Tok::Ident(n)] if n == "None" => None,
                [Tok::Ident(s), Tok::P("("), inner @ .., Tok::P(")")] if s == "Some" => {
                    let k = variant_index(inner, &state_enum, "S").ok_or("bad goto target")?;
                    if k >= n_states {
                        return Err("goto target out of range".into());
                    }
                    Some(k)
                }
                _ => return Err(format!("unreadable goto cell {}", toks_text(cell))),
            };
            r.push(g);
        }
        goto.push(r);
    }

    // start state: `vec ! [ State :: S<k> ]` in parse
    let parse = find(items, ItemKind::Fn, "parse")?;
    let mut start = None;
    for w in parse.body.windows(7) {
        if let [Tok::Ident(v), Tok::P("!"), Tok::P("["), Tok::Ident(e), Tok::P("::"), Tok::Ident(s), Tok::P("]")] = w {
            if v == "vec" && *e == state_enum {
                start = s.strip_prefix('S').and_then(|k| k.parse::<usize>().ok());
                break;
            }
        }
    }
    let start = start.ok_or("start state not found in parse")?;
    if start >= n_states {
        return Err("start state out of range".into());
    }

    // pop_and_reduce dispatch
    let par = find(items, ItemKind::Fn, "pop_and_reduce")?;
    let (pparams, pret) = fn_sig(&par.header)?;
    let node_enum = match pret.as_slice() {
        [Tok::P("("), Tok::Ident(n), Tok::P(","), Tok::Ident(k), Tok::P(")")] if *k == nkind_enum => n.clone(),
        _ => return Err("pop_and_reduce: unexpected return type".into()),
    };
    let _ = pparams;
    // body: match rule_kind { RK::R0 => f(states, nodes), ... }
    let mut reduce_fn_of_rule = vec![String::new(); rule_kinds.len()];
    let b = &par.body;
    let open = b.iter().position(|t| t.is_p("{")).ok_or("pop_and_reduce: no match")?;
    if b.len() < open + 2 {
        return Err("pop_and_reduce: short body".into());
    }
    for arm in split_commas(&b[open + 1..b.len() - 1]) {
        match arm.as_slice() {
            [Tok::Ident(e), Tok::P("::"), Tok::Ident(v), Tok::P("=>"), Tok::Ident(f), Tok::P("("), Tok::Ident(a1), Tok::P(","), Tok::Ident(a2), Tok::P(")")]
                if *e == rule_kind_enum && a1 == "states" && a2 == "nodes" =>
            {
                let k: usize = v.strip_prefix('R').and_then(|k| k.parse().ok()).ok_or("bad rule kind in arm")?;
                if k >= reduce_fn_of_rule.len() || !reduce_fn_of_rule[k].is_empty() {
                    return Err("pop_and_reduce: arm out of range or duplicated".into());
                }
                reduce_fn_of_rule[k] = f.clone();
            }
            _ => return Err(format!("pop_and_reduce: unreadable arm {}", toks_text(&arm))),
        }
    }
    if reduce_fn_of_rule.iter().any(|f| f.is_empty()) {
        return Err("pop_and_reduce: missing arm".into());
    }

    Ok(Tables {
        start,
        n_states,
        action_cols,
        goto_cols,
        action,
        goto,
        state_enum,
        action_enum,
        rule_kind_enum,
        qkind_enum,
        nkind_enum,
        node_enum,
        n_rule_kinds: rule_kinds.len(),
        reduce_fn_of_rule,
    })
}

#[derive(Clone, Debug, PartialEq, Eq)]
pub struct ReduceFn {
    /// Number of `nodes.pop()` calls.
    pub pops: usize,
    /// `states.truncate(states.len() - N)`; 0 if absent.
    pub truncate: usize,
    /// Constructor path tokens, e.g. ["Expr", "Wrap"] or ["Pair"].
    pub ctor: Vec<String>,
    /// Node::<variant>
    pub node_variant: String,
    /// NonterminalKind::<variant>
    pub kind_variant: String,
}

/// Read `fn reduce_rN(states, nodes) -> (Node, Kind) { ... ( Node::X(Ctor ...), Kind::X, ) }`.
pub fn reduce_fn(items: &[Item], name: &str, t: &Tables) -> Result<ReduceFn, String> {
    let f = find(items, ItemKind::Fn, name)?;
    let b = &f.body;
    let mut pops = 0;
    for w in b.windows(5) {
        if let [Tok::Ident(n), Tok::P("."), Tok::Ident(p), Tok::P("("), Tok::P(")")] = w {
            if (n == "nodes" || n == "_nodes") && p == "pop" {
                pops += 1;
            }
        }
    }
    let mut truncate = 0usize;
    for w in b.windows(12) {
        if let [Tok::Ident(s), Tok::P("."), Tok::Ident(tr), Tok::P("("), Tok::Ident(s2), Tok::P("."), Tok::Ident(len), Tok::P("("), Tok::P(")"), Tok::P("-"), Tok::Num(n), Tok::P(")")] = w {
            if s == "states" && tr == "truncate" && s2 == "states" && len == "len" {
                truncate = *n as usize;
            }
        }
    }
    // final tuple: the last top-level parenthesised group of the body
    let mut last_open = None;
    let mut depth = 0i32;
    for (i, tk) in b.iter().enumerate() {
        if let Tok::P(p) = tk {
            match *p {
                "(" | "[" | "{" => {
                    if depth == 0 && *p == "(" {
                        last_open = Some(i);
                    }
                    depth += 1;
                }
                ")" | "]" | "}" => depth -= 1,
                _ => {}
            }
        }
    }
    let lo = last_open.ok_or("reduce fn: no result tuple")?;
    if !b[b.len() - 1].is_p(")") {
        return Err("reduce fn: result tuple is not last".into());
    }
    let parts = split_commas(&b[lo + 1..b.len() - 1]);
    if parts.len() != 2 {
        return Err("reduce fn: result is not a pair".into());
    }
    // Node :: X ( Ctor... )
    let (node_variant, ctor) = match parts[0].as_slice() {
        [Tok::Ident(n), Tok::P("::"), Tok::Ident(v), Tok::P("("), inner @ .., Tok::P(")")] if *n == t.node_enum => {
            let mut ctor = vec![];
            let mut j = 0;
            while j < inner.len() {
                match &inner[j] {
                    Tok::Ident(s) => ctor.push(s.clone()),
                    _ => break,
                }
                j += 1;
                if j < inner.len() && inner[j].is_p("::") {
                    j += 1;
                } else {
                    break;
                }
            }
            (v.clone(), ctor)
        }
        _ => return Err(format!("reduce fn: unreadable node expression {}", toks_text(&parts[0]))),
    };
    let kind_variant = match parts[1].as_slice() {
        [Tok::Ident(n), Tok::P("::"), Tok::Ident(v)] if *n == t.nkind_enum => v.clone(),
        _ => return Err("reduce fn: unreadable kind expression".into()),
    };
    Ok(ReduceFn {
        pops,
        truncate,
        ctor,
        node_variant,
        kind_variant,
    })
}
