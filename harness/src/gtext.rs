//! G-text: hostile source text for the front end.

use crate::gen;
use crate::rkiki::{self, KikiGrammar, RAttr, RItem, RFieldset, RSym, RType};
use crate::rlex::{self, K};
use crate::rng::Rng;

/// Alphabet built to hit every lexer transition.
pub const ATOMS: &[&str] = &[
    "a", "b", "Z", "_", "0", "9", "x1", "$", "#", "[", "]", "(", ")", "{", "}", "<", ">", ":", ",", "/", " ", "\n", "\t", "\r", "\r\n",
    "\u{a0}", "\u{2003}", "\u{2028}", "\u{85}", "é", "中", "𝄞", "start", "struct", "enum", "terminal", "//", "#[", "::", "$x", "$start",
    "$_", "$Tok", "Foo", "\"", "'", "-", ".", "!", "=", ";", "\\", "\u{feff}", "\0", "#[a]", "#[(", ")]",
    // Unicode classes that ASCII-only rules must reject: non-ASCII digits / numerics / letters / marks /
    // zero-width characters; and every kind of Unicode White_Space, which must separate tokens
    "²", "½", "٣", "１", "Ⅷ", "ß", "Ω", "ａ", "İ", "\u{301}", "\u{200d}", "\u{200b}", "\u{180e}", "\u{1c}",
    "\u{b}", "\u{c}", "\u{1680}", "\u{2000}", "\u{200a}", "\u{2029}", "\u{202f}", "\u{205f}", "\u{3000}",
];

pub fn soup(rng: &mut Rng, max_atoms: usize) -> String {
    let n = rng.range(1, max_atoms);
    let mut s = String::new();
    for _ in 0..n {
        s.push_str(rng.pick_str(ATOMS));
    }
    s
}

/// Inputs that no soup produces: empty and blank files, files of comments only, identifiers / comments /
/// attributes whose length sits on a power-of-two or decimal boundary, long runs of one punctuation character.
pub fn special_texts() -> Vec<String> {
    let mut v: Vec<String> = vec![
        "".into(), " ".into(), "\n".into(), "\r\n".into(), "//".into(), "// c".into(), "// c\n".into(), "\u{feff}".into(), "\u{feff}start A".into(),
        "\t\u{a0}\u{3000}".into(), ":::::".into(), "::::".into(), ":::".into(), "$$$".into(), "$$".into(), "###".into(), "#[[[]]]".into(), "#[]#[]".into(), "///".into(), "////".into(),
        "_1_000".into(), "$_1_000".into(), "x_start".into(), "start_".into(), "$x_enum".into(), "$enum_".into(), "structenum".into(), "_terminal".into(), "terminal_".into(), "r#type".into(),
        "_ _".into(), "__".into(), "$__".into(), "_0".into(), "$_0".into(), "a$b".into(), "$a$b".into(), "a#b".into(), "a/b".into(), "a//b".into(), "$a//b".into(), "::a//".into(),
    ];
    for (_, _, pre) in crate::hashtwins::KEYWORD_PREIMAGES {
        for n in pre.iter() {
            v.push(n.to_string());
            v.push(format!("${n}"));
            v.push(format!("{n} S struct S"));
        }
    }
    // page geometry: one-byte tokens (and one illegal character) exactly on / around multiples of P, between
    // whole pages of pure blanks
    for p in [8usize, 64, 4096, 65_536] {
        for blank in [" ", "\n", "\t"] {
            for c in ["A", "_", "{", "@", "é", "$"] {
                if p > 4096 && (blank != " " || (c != "A" && c != "@")) {
                    continue;
                }
                for off in [0usize, 1, p - 1] {
                    let mut t = blank.repeat(p + off);
                    t.push_str(c);
                    t.push_str(&blank.repeat(2 * p - off - 1));
                    t.push_str("B");
                    t.push_str(&blank.repeat(p - 1));
                    t.push_str(c);
                    v.push(t);
                }
            }
        }
    }
    // the shape of the generator's own output header in front of a grammar
    v.push("// x\n// @sha256 e3b0c44298fc1c149afbf4c8996fb92427ae41e4649b934ca495991b7852b855\nstart S\nstruct S\nterminal T {}\n".to_string());
    v.push("// @sha256 E3B0C44298FC1C149AFBF4C8996FB92427AE41E4649B934CA495991B7852B855\r\nstart S".to_string());
    v.push("// @sha256 e3b0c44298fc1c149afbf4c8996fb92427ae41e4649b934ca495991b7852b855".to_string());
    for n in [63usize, 64, 65, 127, 128, 129, 255, 256, 257, 1023, 1024, 1025, 4095, 4096, 4097] {
        v.push(format!("I{}", "x".repeat(n - 1)));
        v.push(format!("$T{}", "y".repeat(n - 2)));
        v.push(format!("//{}\nA", "c".repeat(n - 2)));
        v.push(format!("//{}", "é".repeat(n / 2)));
        v.push(format!("#[{}]", "a".repeat(n - 3)));
        v.push(format!("#[{}{}]", "(".repeat(n / 2), ")".repeat(n / 2)));
        v.push(format!("#[{}{}", "(".repeat(n / 2), ")".repeat(n / 2 - 1)));
        v.push(format!("{}A", " ".repeat(n)));
        v.push(format!("{}$", "\n".repeat(n)));
        v.push(format!("{}", ":".repeat(n)));
        v.push(format!("start {}", "A ".repeat(n)));
    }
    v
}

/// A comment (plus newline) that moves everything behind it across a position threshold.
pub fn position_padding(rng: &mut Rng) -> String {
    let target = *rng.pick(&[250usize, 256, 260, 1000, 4090, 4096, 4100, 9995, 10005, 32760, 32770, 60000, 65530, 65540, 99995, 100005, 131080, 1_048_580]);
    let jitter = rng.below(6);
    let body = if rng.chance(0.2) { "é".repeat((target + jitter) / 2) } else { "p".repeat(target + jitter) };
    format!("//{body}\n")
}

/// All strings of exactly `n` atoms, by index.
pub fn atom_string(mut index: u64, n: usize) -> String {
    let mut s = String::new();
    for _ in 0..n {
        s.push_str(ATOMS[(index % ATOMS.len() as u64) as usize]);
        index /= ATOMS.len() as u64;
    }
    s
}

pub const IDENTS: &[&str] = &["A", "B", "Foo", "x1", "a", "b", "Tok", "_q", "__", "N0", "T0", "f0", "Expr", "lhs"];
pub const TIDENTS: &[&str] = &["$A", "$Tok", "$T0", "$x", "$_9", "$Foo"];
pub const ATTRS: &[&str] = &["#[a]", "#[derive(Debug, Clone)]", "#[d(b[c]{e})]", "#[]", "#[doc = \"é 中 𝄞\"]", "#[x // y]"];
pub const SEPARATORS: &[&str] = &[
    " ", "\n", "  ", "\t", " // c\n", "\r\n", "\u{a0}", "\u{2003}", "\n// é 中 𝄞 #[ $ /\n", "", "", "//\n", "\u{2028}", " //x\r\n", "\u{b}", "\u{c}", "\u{85}",
    "\u{1680}", "\u{2000}", "\u{200a}", "\u{2029}", "\u{202f}", "\u{205f}", "\u{3000}", "//c\n",
];

pub fn token_text(k: K, rng: &mut Rng) -> String {
    // now and then a single token of thousands of bytes (only identifiers, terminal identifiers and
    // attributes can be long): token *length* on thresholds, as opposed to token counts
    let long = if rng.below(400) == 0 { Some(*rng.pick(&[100usize, 255, 256, 1000, 4095, 4096, 4097, 5000, 65_535, 65_537, 100_000])) } else { None };
    match (k, long) {
        (K::Ident, Some(n)) => format!("{}{}", rng.pick_str(&["A", "x", "_"]), rng.pick_str(&["b", "Z", "_", "7"]).repeat(n - 1)),
        (K::TerminalIdent, Some(n)) => format!("$T{}", rng.pick_str(&["b", "Z", "_", "7"]).repeat(n - 2)),
        (K::Attr, Some(n)) => match rng.below(3) {
            0 => format!("#[doc = \"{}\"]", rng.pick_str(&["x", "é", " ", "中"]).repeat(n)),
            1 => format!("#[derive({})]", (0..n / 8 + 1).map(|i| format!("Trait{i:03}")).collect::<Vec<_>>().join(", ")),
            _ => format!("#[{}{}]", "(".repeat(n / 2), ")".repeat(n / 2)),
        },
        // (identifiers whose hash - under one of a dozen common string hashes - equals a reserved word's)
        (K::Ident, None) if rng.below(40) == 0 => preimage_ident(rng),
        (K::TerminalIdent, None) if rng.below(40) == 0 => format!("${}", preimage_ident(rng)),
        (K::Ident, None) => rng.pick(IDENTS).to_string(),
        (K::TerminalIdent, None) => rng.pick(TIDENTS).to_string(),
        (K::Attr, None) => rng.pick(ATTRS).to_string(),
        (other, _) => other.fixed_text().unwrap().to_string(),
    }
}

fn preimage_ident(rng: &mut Rng) -> String {
    loop {
        let (_, _, v) = rng.pick(crate::hashtwins::KEYWORD_PREIMAGES);
        if !v.is_empty() {
            return rng.pick_str(v).to_string();
        }
    }
}

/// Does `a sep b` lex as exactly the two tokens `a`, `b`?
fn joins_cleanly(a: &str, sep: &str, b: &str) -> bool {
    let s = format!("{a}{sep}{b}");
    match rlex::lex(&s) {
        Ok(t) => t.len() == 2 && t[0].start == 0 && t[0].end == a.len() && t[1].start == a.len() + sep.len() && t[1].end == s.len(),
        Err(_) => false,
    }
}

/// Join token texts with random separators that keep the token sequence.
/// Returns the text and the byte offset of every token.
pub fn join_tokens(texts: &[String], rng: &mut Rng, seps: &[&str]) -> (String, Vec<usize>) {
    let head = if rng.chance(0.5) { rng.pick_str(seps) } else { "" };
    let (mut s, starts) = join_tokens_core(texts, rng, seps, head);
    match rng.below(5) {
        0 => s.push_str(" "),
        1 => s.push('\n'),
        2 => s.push_str("// end, no newline"),
        3 => s.push_str("\r\n"),
        _ => {}
    }
    (s, starts)
}

/// Like `join_tokens`, but nothing is appended after the last token.
pub fn join_tokens_core(texts: &[String], rng: &mut Rng, seps: &[&str], head: &str) -> (String, Vec<usize>) {
    let mut s = String::from(head);
    let mut starts = vec![];
    for (i, t) in texts.iter().enumerate() {
        if i > 0 {
            let mut sep = *rng.pick(seps);
            if !joins_cleanly(&texts[i - 1], sep, t) {
                sep = if joins_cleanly(&texts[i - 1], " ", t) { " " } else { "\n" };
            }
            s.push_str(sep);
        }
        starts.push(s.len());
        s.push_str(t);
    }
    (s, starts)
}

/// A random sentence of the Kiki grammar itself, as token kinds.
pub fn kiki_sentence(g: &KikiGrammar, rng: &mut Rng, target: usize) -> Vec<K> {
    let an = crate::lr::analyse(&g.cfg);
    let w = gen::random_sentence(&g.cfg, &an, rng, target).unwrap_or_default();
    w.iter().map(|t| rlex::ALL_KINDS[g.term_of_kind.iter().position(|x| x == t).unwrap()]).collect()
}

pub fn tokens_of(src: &str) -> Option<Vec<(K, String)>> {
    let t = rlex::lex(src).ok()?;
    Some(t.iter().map(|t| (t.kind, src[t.start..t.end].to_string())).collect())
}

pub fn edit_tokens(toks: &mut Vec<(K, String)>, rng: &mut Rng, edits: usize) {
    for _ in 0..edits {
        let op = if toks.is_empty() { 1 } else { rng.below(5) };
        let random_tok = |rng: &mut Rng| {
            let k = *rng.pick(&rlex::ALL_KINDS);
            (k, token_text(k, rng))
        };
        match op {
            0 => {
                let i = rng.below(toks.len());
                toks.remove(i);
            }
            1 => {
                let i = rng.below(toks.len() + 1);
                let t = random_tok(rng);
                toks.insert(i, t);
            }
            2 => {
                let i = rng.below(toks.len());
                toks[i] = random_tok(rng);
            }
            3 => {
                if toks.len() >= 2 {
                    let i = rng.below(toks.len() - 1);
                    toks.swap(i, i + 1);
                }
            }
            _ => {
                let i = rng.below(toks.len());
                let t = toks[i].clone();
                toks.insert(i, t);
            }
        }
    }
}

pub fn edit_chars(s: &str, rng: &mut Rng, edits: usize) -> String {
    let mut chars: Vec<char> = s.chars().collect();
    for _ in 0..edits {
        let op = if chars.is_empty() { 1 } else { rng.below(5) };
        match op {
            0 => {
                let i = rng.below(chars.len());
                chars.remove(i);
            }
            1 => {
                let i = rng.below(chars.len() + 1);
                let atom: Vec<char> = rng.pick(ATOMS).chars().collect();
                for (k, c) in atom.into_iter().enumerate() {
                    chars.insert(i + k, c);
                }
            }
            2 => {
                let i = rng.below(chars.len());
                chars[i] = rng.pick(ATOMS).chars().next().unwrap();
            }
            3 => {
                if chars.len() >= 2 {
                    let i = rng.below(chars.len() - 1);
                    chars.swap(i, i + 1);
                }
            }
            _ => {
                let i = rng.below(chars.len());
                let c = chars[i];
                chars.insert(i, c);
            }
        }
    }
    chars.into_iter().collect()
}

// ---------------------------------------------------------------------------
// Rendering a reference AST back to text (used to inject static violations)

fn sym_text(s: &RSym) -> String {
    match s {
        RSym::N(i) => i.name.clone(),
        RSym::T(i) => format!("${}", i.name),
    }
}

fn fieldset_text(fs: &RFieldset) -> String {
    match fs {
        RFieldset::Empty => String::new(),
        RFieldset::Named(f) => {
            let inner: Vec<String> = f
                .iter()
                .map(|x| format!("{}: {}", x.name.as_ref().map(|n| n.name.as_str()).unwrap_or("_"), sym_text(&x.sym)))
                .collect();
            format!(" {{ {} }}", inner.join(" "))
        }
        RFieldset::Tuple(f) => {
            let inner: Vec<String> = f.iter().map(|x| format!("{}{}", if x.skipped { "_: " } else { "" }, sym_text(&x.sym))).collect();
            format!("({})", inner.join(" "))
        }
    }
}

fn type_text(t: &RType) -> String {
    let mut toks = vec![];
    t.token_texts(&mut toks);
    toks.join("")
}

/// rustc's lint groups and the lints about naming, dead code and style: what users put into
/// `#[allow(..)]` on grammar declarations.
pub const LINT_NAMES: &[&str] = &[
    "warnings", "unused", "nonstandard_style", "bad_style", "non_camel_case_types", "non_snake_case", "non_upper_case_globals", "dead_code", "unused_variables",
    "unused_imports", "unused_mut", "unreachable_code", "unreachable_patterns", "clippy::all", "clippy::pedantic", "clippy::style", "clippy::upper_case_acronyms",
    "clippy::enum_variant_names", "clippy::large_enum_variant", "missing_docs", "rust_2018_idioms", "future_incompatible", "deprecated", "improper_ctypes", "unused_parens",
    "private_interfaces", "ambiguous_associated_items", "non_ascii_idents", "confusable_idents", "mixed_script_confusables", "uncommon_codepoints",
];

/// Put 1-3 attributes on random declarations: lint attributes (`allow` / `warn` / `deny` / `forbid` /
/// `expect` over real lint names), derive lists, cfg / doc attributes.  Attributes never influence
/// validation; a validator that peeks at them is wrong.
pub fn decorate_items(items: &mut [RItem], rng: &mut Rng) {
    let decls: Vec<usize> = (0..items.len()).filter(|i| !matches!(items[*i], RItem::Start(_))).collect();
    if decls.is_empty() {
        return;
    }
    for _ in 0..rng.range(1, 3) {
        let text = match rng.below(6) {
            0..=2 => {
                let level = rng.pick_str(&["allow", "allow", "allow", "warn", "deny", "forbid", "expect"]);
                let k = rng.range(1, 3);
                let lints: Vec<&str> = (0..k).map(|_| rng.pick_str(LINT_NAMES)).collect();
                let sep = rng.pick_str(&[", ", ",", " , "]);
                format!("#[{level}({}{})]", lints.join(sep), rng.pick_str(&["", "", ","]))
            }
            3 => "#[derive(Debug, Clone, PartialEq)]".to_string(),
            4 => rng.pick_str(&["#[cfg(test)]", "#[doc = \"x\"]", "#[repr(u8)]", "#[non_exhaustive]", "#[must_use]", "#[rustfmt::skip]", "#[cfg_attr(test, allow(nonstandard_style))]"]).to_string(),
            _ => {
                let d = repo_dictionary();
                d.pick_attr(rng).unwrap_or_else(|| "#[automatically_derived]".to_string())
            }
        };
        let i = *rng.pick(&decls);
        match &mut items[i] {
            RItem::Struct { attrs, .. } | RItem::Enum { attrs, .. } | RItem::Terminal { attrs, .. } => {
                let at = rng.below(attrs.len() + 1);
                attrs.insert(at, RAttr { src: text, pos: 0 });
            }
            RItem::Start(_) => {}
        }
    }
}

pub fn render_items(items: &[RItem]) -> String {
    let mut s = String::new();
    for it in items {
        match it {
            RItem::Start(i) => s.push_str(&format!("start {}\n", i.name)),
            RItem::Struct { attrs, name, fieldset } => {
                for a in attrs {
                    s.push_str(&a.src);
                    s.push('\n');
                }
                s.push_str(&format!("struct {}{}\n", name.name, fieldset_text(fieldset)));
            }
            RItem::Enum { attrs, name, variants } => {
                for a in attrs {
                    s.push_str(&a.src);
                    s.push('\n');
                }
                s.push_str(&format!("enum {} {{\n", name.name));
                for (vn, fs) in variants {
                    s.push_str(&format!("    {}{}\n", vn.name, fieldset_text(fs)));
                }
                s.push_str("}\n");
            }
            RItem::Terminal { attrs, name, variants } => {
                for a in attrs {
                    s.push_str(&a.src);
                    s.push('\n');
                }
                s.push_str(&format!("terminal {} {{\n", name.name));
                for (vn, ty) in variants {
                    s.push_str(&format!("    ${}: {}\n", vn.name, type_text(ty)));
                }
                s.push_str("}\n");
            }
        }
    }
    s
}

/// Names used when injecting violations: clashes, wrong capitalisation, letter-less names.
pub const HOSTILE_NAMES: &[&str] = &["A", "B", "Tok", "a", "b", "tok", "_q", "__", "_0", "A1", "x", "X", "_Z", "_z", "N0", "T0", "T1", "N1", "V0", "f0"];

fn all_idents_mut(items: &mut [RItem]) -> Vec<&mut rkiki::RIdent> {
    fn fs_idents<'a>(fs: &'a mut RFieldset, out: &mut Vec<&'a mut rkiki::RIdent>) {
        let fields = match fs {
            RFieldset::Empty => return,
            RFieldset::Named(f) | RFieldset::Tuple(f) => f,
        };
        for f in fields.iter_mut() {
            if let Some(n) = f.name.as_mut() {
                out.push(n);
            }
            match &mut f.sym {
                RSym::N(i) | RSym::T(i) => out.push(i),
            }
        }
    }
    let mut out = vec![];
    for it in items.iter_mut() {
        match it {
            RItem::Start(i) => out.push(i),
            RItem::Struct { name, fieldset, .. } => {
                out.push(name);
                fs_idents(fieldset, &mut out);
            }
            RItem::Enum { name, variants, .. } => {
                out.push(name);
                for (vn, fs) in variants.iter_mut() {
                    out.push(vn);
                    fs_idents(fs, &mut out);
                }
            }
            RItem::Terminal { name, variants, .. } => {
                out.push(name);
                for (vn, _) in variants.iter_mut() {
                    out.push(vn);
                }
            }
        }
    }
    out
}

fn all_syms_mut(items: &mut [RItem]) -> Vec<&mut RSym> {
    let mut out = vec![];
    for it in items.iter_mut() {
        let fss: Vec<&mut RFieldset> = match it {
            RItem::Struct { fieldset, .. } => vec![fieldset],
            RItem::Enum { variants, .. } => variants.iter_mut().map(|(_, f)| f).collect(),
            _ => vec![],
        };
        for fs in fss {
            if let RFieldset::Named(f) | RFieldset::Tuple(f) = fs {
                for x in f.iter_mut() {
                    out.push(&mut x.sym);
                }
            }
        }
    }
    out
}

/// Inject one static violation (or a harmless change) into a syntactically valid file.
pub fn inject(items: &mut Vec<RItem>, rng: &mut Rng) -> &'static str {
    match rng.below(13) {
        0 => {
            // rename some identifier to a name already used elsewhere in the file
            let names: Vec<String> = all_idents_mut(items).iter().map(|i| i.name.clone()).collect();
            let mut ids = all_idents_mut(items);
            if !ids.is_empty() {
                let k = rng.below(ids.len());
                ids[k].name = rng.pick(&names).clone();
            }
            "rename-to-existing"
        }
        1 => {
            let mut ids = all_idents_mut(items);
            if !ids.is_empty() {
                let k = rng.below(ids.len());
                ids[k].name = rng.pick(HOSTILE_NAMES).to_string();
            }
            "rename-to-hostile"
        }
        2 => {
            // flip the namespace of a symbol reference: N <-> $N
            let mut syms = all_syms_mut(items);
            if !syms.is_empty() {
                let k = rng.below(syms.len());
                let new = match &*syms[k] {
                    RSym::N(i) => RSym::T(i.clone()),
                    RSym::T(i) => RSym::N(i.clone()),
                };
                *syms[k] = new;
            }
            "flip-namespace"
        }
        3 => {
            let starts: Vec<usize> = items.iter().enumerate().filter(|(_, i)| matches!(i, RItem::Start(_))).map(|(k, _)| k).collect();
            if let Some(k) = starts.first() {
                items.remove(*k);
            }
            "drop-start"
        }
        4 => {
            let st = items.iter().find(|i| matches!(i, RItem::Start(_))).cloned();
            if let Some(s) = st {
                let k = rng.below(items.len() + 1);
                items.insert(k, s);
            }
            "duplicate-start"
        }
        5 => {
            let k = items.iter().position(|i| matches!(i, RItem::Terminal { .. }));
            if let Some(k) = k {
                items.remove(k);
            }
            "drop-terminal-enum"
        }
        6 => {
            let t = items.iter().find(|i| matches!(i, RItem::Terminal { .. })).cloned();
            if let Some(mut t) = t {
                if rng.chance(0.5) {
                    if let RItem::Terminal { name, .. } = &mut t {
                        name.name = rng.pick(HOSTILE_NAMES).to_string();
                    }
                }
                let k = rng.below(items.len() + 1);
                items.insert(k, t);
            }
            "duplicate-terminal-enum"
        }
        7 => {
            // duplicate a variant (name clash + sequence clash) or only its name / only its fields
            let enums: Vec<usize> = items.iter().enumerate().filter(|(_, i)| matches!(i, RItem::Enum { variants, .. } if !variants.is_empty())).map(|(k, _)| k).collect();
            if !enums.is_empty() {
                let e = *rng.pick(&enums);
                if let RItem::Enum { variants, .. } = &mut items[e] {
                    let k = rng.below(variants.len());
                    let mut v = variants[k].clone();
                    match rng.below(3) {
                        0 => {}
                        1 => v.0.name = format!("{}2", v.0.name),
                        _ => v.1 = RFieldset::Empty,
                    }
                    let at = rng.below(variants.len() + 1);
                    variants.insert(at, v);
                }
            }
            "duplicate-variant"
        }
        8 => {
            // duplicate a nonterminal declaration
            let nts: Vec<usize> = items.iter().enumerate().filter(|(_, i)| matches!(i, RItem::Struct { .. } | RItem::Enum { .. })).map(|(k, _)| k).collect();
            if !nts.is_empty() {
                let it = items[*rng.pick(&nts)].clone();
                let k = rng.below(items.len() + 1);
                items.insert(k, it);
            }
            "duplicate-nonterminal"
        }
        9 => {
            // start names a terminal, the terminal enum, or nothing
            let tn: Vec<String> = items
                .iter()
                .filter_map(|i| if let RItem::Terminal { name, variants, .. } = i { Some(std::iter::once(name.name.clone()).chain(variants.iter().map(|v| v.0.name.clone())).collect::<Vec<_>>()) } else { None })
                .flatten()
                .collect();
            for it in items.iter_mut() {
                if let RItem::Start(s) = it {
                    s.name = if !tn.is_empty() && rng.chance(0.7) { rng.pick(&tn).clone() } else { "Nowhere".to_string() };
                }
            }
            "start-names-non-nonterminal"
        }
        10 => {
            // duplicate a terminal variant
            for it in items.iter_mut() {
                if let RItem::Terminal { variants, .. } = it {
                    if !variants.is_empty() {
                        let v = variants[rng.below(variants.len())].clone();
                        variants.push(v);
                    }
                }
            }
            "duplicate-terminal-variant"
        }
        11 => {
            // change capitalisation of some identifier
            let mut ids = all_idents_mut(items);
            if !ids.is_empty() {
                let k = rng.below(ids.len());
                let n = &ids[k].name;
                let flipped: String = match n.char_indices().find(|(_, c)| c.is_ascii_alphabetic()) {
                    Some((i, c)) => {
                        let f = if c.is_ascii_uppercase() { c.to_ascii_lowercase() } else { c.to_ascii_uppercase() };
                        format!("{}{}{}", &n[..i], f, &n[i + 1..])
                    }
                    None => n.clone(),
                };
                ids[k].name = flipped;
            }
            "flip-capitalisation"
        }
        _ => "none",
    }
}

/// Several simultaneous violations of the *same* kind (the situation in which "report the
/// first one found" must not depend on hash order, and in which a truthful report has a choice).
pub fn inject_many(items: &mut Vec<RItem>, rng: &mut Rng) -> &'static str {
    let id = |n: &str| rkiki::RIdent { name: n.to_string(), pos: 0 };
    let tuple = |syms: Vec<RSym>| RFieldset::Tuple(syms.into_iter().map(|s| rkiki::RField { name: None, skipped: false, underscore_pos: None, sym: s }).collect());
    let named = |fs: Vec<(&str, RSym)>| {
        RFieldset::Named(fs.into_iter().map(|(n, s)| rkiki::RField { name: Some(rkiki::RIdent { name: n.to_string(), pos: 0 }), skipped: false, underscore_pos: None, sym: s }).collect())
    };
    let some_nt: Option<String> = items.iter().find_map(|i| match i {
        RItem::Struct { name, .. } | RItem::Enum { name, .. } => Some(name.name.clone()),
        _ => None,
    });
    let some_nt = some_nt.unwrap_or_else(|| "KvNone".to_string());
    let nt = |n: &str| RSym::N(rkiki::RIdent { name: n.to_string(), pos: 0 });
    let at = rng.below(items.len() + 1);
    let k = rng.range(2, 4);
    match rng.below(10) {
        9 => {
            // NOT a violation: variants whose symbol sequences differ but spell the same text when written
            // without separators (`KvP KvQ` / `KvPKvQ`, `KvP KvPKvQ` / `KvPKvP KvQ`), named and tuple
            for n in ["KvP", "KvQ", "KvPKvQ", "KvPKvP"] {
                let p = rng.below(items.len() + 1);
                items.insert(p, RItem::Struct { attrs: vec![], name: id(n), fieldset: RFieldset::Empty });
            }
            let mut variants = vec![
                (id("One"), tuple(vec![nt("KvP"), nt("KvQ")])),
                (id("Two"), tuple(vec![nt("KvPKvQ")])),
                (id("Three"), named(vec![("a", nt("KvP")), ("b", nt("KvPKvQ"))])),
                (id("Four"), tuple(vec![nt("KvPKvP"), nt("KvQ")])),
            ];
            if rng.chance(0.5) {
                rng.shuffle(&mut variants);
            }
            items.insert(at.min(items.len()), RItem::Enum { attrs: vec![], name: id("KvTwins"), variants });
            "concatenation-twin-variants (no violation)"
        }
        0 => {
            // k different variant names, each declared twice, interleaved
            let names = ["Lorem", "Ipsum", "Dolor", "Sit"];
            let mut variants = vec![];
            for round in 0..2 {
                for (i, n) in names.iter().take(k).enumerate() {
                    let fs = if round == 0 { RFieldset::Empty } else { tuple(vec![nt(&some_nt); i + 1]) };
                    variants.push((id(n), fs));
                }
            }
            if rng.chance(0.5) {
                rng.shuffle(&mut variants);
            }
            items.insert(at, RItem::Enum { attrs: vec![], name: id("KvMany"), variants });
            "many-variant-name-clashes"
        }
        1 => {
            // k different symbol sequences, each used by two variants
            let mut variants = vec![];
            for i in 0..k {
                variants.push((id(&format!("Va{i}")), tuple(vec![nt(&some_nt); i + 1])));
                variants.push((id(&format!("Vb{i}")), tuple(vec![nt(&some_nt); i + 1])));
            }
            if rng.chance(0.5) {
                rng.shuffle(&mut variants);
            }
            items.insert(at, RItem::Enum { attrs: vec![], name: id("KvMany"), variants });
            "many-symbol-sequence-clashes"
        }
        2 => {
            let syms: Vec<RSym> = (0..k).map(|i| nt(&format!("KvUndefined{i}"))).collect();
            items.insert(at, RItem::Struct { attrs: vec![], name: id("KvMany"), fieldset: tuple(syms) });
            "many-undefined-nonterminals"
        }
        3 => {
            let syms: Vec<RSym> = (0..k).map(|i| RSym::T(rkiki::RIdent { name: format!("KvUndefined{i}"), pos: 0 })).collect();
            items.insert(at, RItem::Struct { attrs: vec![], name: id("KvMany"), fieldset: tuple(syms) });
            "many-undefined-terminals"
        }
        4 => {
            // k different top-level names, each defined twice
            for i in 0..k {
                for _ in 0..rng.range(2, 3) {
                    let p = rng.below(items.len() + 1);
                    items.insert(p, RItem::Struct { attrs: vec![], name: id(&format!("KvDup{i}")), fieldset: RFieldset::Empty });
                }
            }
            "many-name-clashes"
        }
        5 => {
            for i in 0..k {
                let p = rng.below(items.len() + 1);
                items.insert(p, RItem::Struct { attrs: vec![], name: id(&format!("kvLower{i}")), fieldset: RFieldset::Empty });
            }
            "many-lowercase-nonterminals"
        }
        6 => {
            let fields: Vec<(String, RSym)> = (0..k).map(|i| (format!("Upper{i}"), nt(&some_nt))).collect();
            let fs = named(fields.iter().map(|(n, s)| (n.as_str(), s.clone())).collect());
            items.insert(at, RItem::Struct { attrs: vec![], name: id("KvMany"), fieldset: fs });
            "many-uppercase-fields"
        }
        7 => {
            for _ in 0..k {
                let p = rng.below(items.len() + 1);
                items.insert(p, RItem::Start(id(&some_nt)));
            }
            "many-start-statements"
        }
        _ => {
            for i in 0..k {
                let p = rng.below(items.len() + 1);
                items.insert(p, RItem::Terminal { attrs: vec![], name: id(&format!("KvTerm{i}")), variants: vec![] });
            }
            "many-terminal-enums"
        }
    }
}

/// Random items over a tiny name pool: every kind of violation in every combination.
pub fn pool_file(rng: &mut Rng) -> String {
    // (with names that are concatenations of other names: `A` `B` `AB`, `A` `A1`, `X` `XX`)
    const NAMES: &[&str] = &["A", "B", "C", "Tok", "X", "a", "b", "x", "_q", "__", "A1", "tok", "T", "Y", "AB", "BA", "AA", "XX", "A_", "_A"];
    const FIELD_NAMES: &[&str] = &["_", "a", "b", "Q", "x1", "_z", "_Z", "__"];
    let sym = |rng: &mut Rng| {
        let n = rng.pick(NAMES);
        if rng.chance(0.5) {
            format!("${n}")
        } else {
            n.to_string()
        }
    };
    let fs = |rng: &mut Rng| -> String {
        let r = rng.f64();
        if r < 0.3 {
            return String::new();
        }
        let k = rng.range(1, 3);
        if r < 0.65 {
            let inner: Vec<String> = (0..k).map(|_| format!("{}{}", if rng.chance(0.3) { "_: " } else { "" }, sym(rng))).collect();
            format!("({})", inner.join(" "))
        } else {
            let inner: Vec<String> = (0..k).map(|_| format!("{}: {}", rng.pick(FIELD_NAMES), sym(rng))).collect();
            format!("{{{}}}", inner.join(" "))
        }
    };
    let mut out: Vec<String> = vec![];
    for _ in 0..rng.range(1, 4) {
        let n = rng.pick(NAMES);
        if rng.chance(0.5) {
            out.push(format!("struct {n}{}", fs(rng)));
        } else {
            let vs: Vec<String> = (0..rng.range(0, 3)).map(|_| format!("{}{}", rng.pick(NAMES), fs(rng))).collect();
            out.push(format!("enum {n} {{ {} }}", vs.join(" ")));
        }
    }
    for _ in 0..*rng.pick(&[0, 1, 1, 1, 1, 2, 3]) {
        out.push(format!("start {}", rng.pick(NAMES)));
    }
    for _ in 0..*rng.pick(&[0, 1, 1, 1, 1, 2, 3]) {
        let vs: Vec<String> = (0..rng.range(0, 3)).map(|_| format!("${}: ()", rng.pick(NAMES))).collect();
        out.push(format!("terminal {} {{ {} }}", rng.pick(NAMES), vs.join(" ")));
    }
    rng.shuffle(&mut out);
    out.join("\n") + "\n"
}

// ---------------------------------------------------------------------------
// A dictionary harvested from the sources under test (like a fuzzer's dictionary): the names of the
// emitter's format-string placeholders (`{node_enum_name}` ...) and its identifiers.  They occur nowhere
// in the documentation or the emitted code, only in kiki's own source text, and are exactly what a
// textual-substitution slip would trip over.

pub struct RepoDictionary {
    /// `{name}` placeholders found in string literals / templates.
    pub placeholders: Vec<String>,
    /// CamelCase identifiers (types, variants) of the sources.
    pub camel: Vec<String>,
    /// String literals of the sources (3..80 bytes, escapes undone), e.g. magic attribute keys.
    pub literals: Vec<String>,
    /// Whole attributes that can be assembled from them: literals that already are `#[...]`, and
    /// `#[a(b = "c")]` / `#[a(b)]` / `#[a = "c"]` combinations of short word-like literals.
    pub attr_literals: Vec<String>,
    /// The first `n_snippets` entries of `attr_literals` are attributes found written out in the sources
    /// (and their quoted-value variants); the rest are assembled from words.
    pub n_snippets: usize,
    /// Names of environment variables the sources read (`env::var("X")`, `env!("X")` ...).
    pub env_vars: Vec<String>,
    pub files_read: usize,
}

pub fn repo_dictionary() -> &'static RepoDictionary {
    static D: std::sync::OnceLock<RepoDictionary> = std::sync::OnceLock::new();
    D.get_or_init(|| {
        let root = std::env::var("KV_REPO").unwrap_or_else(|_| "/repo".to_string());
        let mut placeholders = std::collections::BTreeSet::new();
        let mut camel = std::collections::BTreeSet::new();
        let mut literals = std::collections::BTreeSet::new();
        let mut env_vars = std::collections::BTreeSet::new();
        // every `#[...]` written anywhere in the sources, comments and documentation included (an
        // attribute the generator documents is an attribute it may react to), and the variants obtained
        // by replacing a quoted value in it
        let mut attr_snippets: std::collections::BTreeSet<String> = std::collections::BTreeSet::new();
        let mut files_read = 0;
        let mut stack = vec![std::path::PathBuf::from(root).join("kiki").join("src")];
        while let Some(dir) = stack.pop() {
            let Ok(rd) = std::fs::read_dir(&dir) else { continue };
            for e in rd.flatten() {
                let p = e.path();
                if p.is_dir() {
                    if p.file_name().map(|n| n != "snapshots" && n != "examples").unwrap_or(true) {
                        stack.push(p);
                    }
                    continue;
                }
                let Ok(text) = std::fs::read_to_string(&p) else { continue };
                if text.len() > 2_000_000 {
                    continue;
                }
                files_read += 1;
                let b = text.as_bytes();
                for line in text.lines() {
                    let lb = line.as_bytes();
                    let mut a = 0;
                    while a + 1 < lb.len() {
                        if lb[a] == b'#' && lb[a + 1] == b'[' {
                            let mut depth = 0i32;
                            let mut e = a + 1;
                            let mut in_str = false;
                            while e < lb.len() {
                                match lb[e] {
                                    b'"' => in_str = !in_str,
                                    b'[' | b'(' | b'{' if !in_str => depth += 1,
                                    b']' | b')' | b'}' if !in_str => {
                                        depth -= 1;
                                        if depth == 0 {
                                            break;
                                        }
                                    }
                                    _ => {}
                                }
                                e += 1;
                            }
                            if e < lb.len() && lb[e] == b']' && e - a <= 120 && line.is_char_boundary(a) && line.is_char_boundary(e + 1) {
                                let snippet = line[a..=e].replace("\\\"", "\"");
                                if !snippet.contains('{') && snippet.is_ascii() {
                                    attr_snippets.insert(snippet);
                                }
                            }
                            a = e.max(a + 2);
                        } else {
                            a += 1;
                        }
                    }
                }
                // string literals (plain "..." with escapes; raw strings r#"..."# are scanned as well
                // because their inner quotes simply split them into several pieces)
                let mut k = 0;
                while k < b.len() {
                    if b[k] == b'"' {
                        let mut j = k + 1;
                        let mut lit = String::new();
                        let mut ok = false;
                        while j < b.len() {
                            match b[j] {
                                b'\\' if j + 1 < b.len() => {
                                    match b[j + 1] {
                                        b'"' => lit.push('"'),
                                        b'\\' => lit.push('\\'),
                                        b'n' | b'r' | b't' | b'0' => lit.push(' '),
                                        _ => {}
                                    }
                                    j += 2;
                                }
                                b'"' => {
                                    ok = true;
                                    break;
                                }
                                b'\n' => break,
                                c => {
                                    lit.push(c as char);
                                    j += 1;
                                }
                            }
                        }
                        if ok && lit.len() >= 3 && lit.len() <= 80 && lit.is_ascii() && !lit.contains('{') {
                            let before = &text[k.saturating_sub(24)..k];
                            if before.contains("env::var") || before.contains("env!(") || before.contains("var_os(") || before.contains("option_env!(") {
                                env_vars.insert(lit.clone());
                            }
                            // (also every literal that merely LOOKS like the name of an environment variable:
                            // the name may sit in a constant)
                            if lit.len() <= 40 && lit.starts_with(|c: char| c.is_ascii_uppercase()) && lit.chars().all(|c| c.is_ascii_uppercase() || c.is_ascii_digit() || c == '_') {
                                env_vars.insert(lit.clone());
                            }
                            literals.insert(lit);
                        }
                        k = j + 1;
                    } else {
                        k += 1;
                    }
                }
                let mut i = 0;
                while i < b.len() {
                    if b[i] == b'{' && (i == 0 || b[i - 1] != b'{') {
                        let mut j = i + 1;
                        while j < b.len() && (b[j].is_ascii_lowercase() || b[j].is_ascii_digit() || b[j] == b'_') {
                            j += 1;
                        }
                        if j > i + 3 && j < b.len() && b[j] == b'}' && (j + 1 >= b.len() || b[j + 1] != b'}') && b[i + 1].is_ascii_lowercase() {
                            placeholders.insert(text[i..=j].to_string());
                        }
                        i = j;
                    } else if b[i].is_ascii_uppercase() && (i == 0 || !(b[i - 1].is_ascii_alphanumeric() || b[i - 1] == b'_')) {
                        let mut j = i + 1;
                        while j < b.len() && (b[j].is_ascii_alphanumeric() || b[j] == b'_') {
                            j += 1;
                        }
                        if j - i >= 3 && j - i <= 28 && text[i..j].chars().any(|c| c.is_ascii_lowercase()) {
                            camel.insert(text[i..j].to_string());
                        }
                        i = j;
                    } else {
                        i += 1;
                    }
                }
            }
        }
        let literals: Vec<String> = literals.into_iter().collect();
        // whole attributes
        let mut attr_literals: Vec<String> = std::mem::take(&mut attr_snippets).into_iter().collect();
        let balanced = |t: &str| {
            let mut st = vec![];
            for c in t.chars() {
                match c {
                    '(' | '[' | '{' => st.push(c),
                    ')' => {
                        if st.pop() != Some('(') {
                            return false;
                        }
                    }
                    ']' => {
                        if st.pop() != Some('[') {
                            return false;
                        }
                    }
                    '}' => {
                        if st.pop() != Some('{') {
                            return false;
                        }
                    }
                    _ => {}
                }
            }
            st.is_empty()
        };
        for l in &literals {
            if l.starts_with("#[") && l.ends_with(']') && !l.contains('\n') && balanced(l) {
                attr_literals.push(l.clone());
            }
        }
        // quoted values inside harvested attributes replaced by other short literals
        {
            let values: Vec<&String> = literals.iter().filter(|l| l.len() <= 16 && !l.contains('"') && !l.contains('\\') && balanced(l)).take(80).collect();
            let base: Vec<String> = attr_literals.clone();
            for a in &base {
                if let (Some(i), Some(j)) = (a.find('"'), a.rfind('"')) {
                    if i < j {
                        for v in &values {
                            attr_literals.push(format!("{}\"{}\"{}", &a[..i], v, &a[j + 1..]));
                            // (and without blanks around `=`)
                            attr_literals.push(format!("{}\"{}\"{}", a[..i].replace(" = ", "="), v, &a[j + 1..]));
                        }
                    }
                }
            }
        }
        let n_snippets = attr_literals.len();
        let wordish: Vec<&String> = literals.iter().filter(|l| l.len() <= 24 && l.chars().all(|c| c.is_ascii_alphanumeric() || c == '_')).collect();
        let valueish: Vec<&String> = literals.iter().filter(|l| l.len() <= 24 && !l.contains('"') && !l.contains('\\') && balanced(l)).collect();
        if wordish.len() <= 60 {
            for a in &wordish {
                for bb in &wordish {
                    if a != bb {
                        attr_literals.push(format!("#[{a}({bb})]"));
                        for v in valueish.iter().take(60) {
                            attr_literals.push(format!("#[{a}({bb} = \"{v}\")]"));
                            attr_literals.push(format!("#[{a}({bb}=\"{v}\")]"));
                        }
                    }
                }
                for v in valueish.iter().take(60) {
                    attr_literals.push(format!("#[{a} = \"{v}\"]"));
                }
            }
        }
        attr_literals.truncate(400_000);
        RepoDictionary {
            placeholders: placeholders.into_iter().collect(),
            camel: camel.into_iter().collect(),
            literals,
            attr_literals,
            n_snippets,
            env_vars: env_vars.into_iter().collect(),
            files_read,
        }
    })
}

impl RepoDictionary {
    /// An attribute from the dictionary: mostly one that is written out somewhere in the sources.
    pub fn pick_attr(&self, rng: &mut Rng) -> Option<String> {
        if self.attr_literals.is_empty() {
            return None;
        }
        if self.n_snippets > 0 && rng.chance(0.65) {
            Some(self.attr_literals[rng.below(self.n_snippets)].clone())
        } else {
            Some(rng.pick(&self.attr_literals).clone())
        }
    }
}
