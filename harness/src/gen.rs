//! Workload generators for grammars (corpus, random, parameterised families,
//! embeddings, small-scope enumeration) and for sentences.

use crate::lr::Analysis;
use crate::model::*;
use crate::rng::Rng;

/// Textbook grammars chosen to separate grammar classes and to hit the
/// unusual shapes named by the properties.  (name, text)
pub const CORPUS: &[(&str, &str)] = &[
    ("balanced", "S -> ( S ) S |"),
    ("expr-slr", "E -> E + T | T ; T -> T * F | F ; F -> ( E ) | id"),
    ("lalr-not-slr-1", "S -> L = R | R ; L -> * R | id ; R -> L"),
    ("lalr-not-slr-2", "S -> A a | b A c | d c | b d a ; A -> d"),
    ("lr1-not-lalr-1", "S -> a E a | b E b | a F b | b F a ; E -> e ; F -> e"),
    ("lr1-not-lalr-2", "S -> a A d | b B d | a B e | b A e ; A -> c ; B -> c"),
    ("ambiguous-expr", "E -> E + E | n"),
    ("dangling-else", "S -> i S | i S e S | x"),
    ("palindromes-not-lrk", "S -> a S a | b S b |"),
    ("lr2-not-lr1", "S -> A a a | B a b ; A -> c ; B -> c"),
    ("eps-heavy", "S -> A B C ; A -> a | ; B -> b | ; C -> c |"),
    ("eps-middle", "S -> a A b ; A -> | c"),
    ("nullable-start", "S -> | S a"),
    ("only-eps", "S -> A A ; A ->"),
    ("left-right-mix", "S -> S a | b S | c"),
    ("cyclic", "A -> A | a"),
    ("cyclic-only", "A -> A"),
    ("accept-reduce", "S -> S | a"),
    ("unproductive", "S -> a | U ; U -> U b"),
    ("unproductive-mid", "S -> a U b | a c ; U -> U b"),
    ("unproductive-start", "S -> S a"),
    ("unreachable", "S -> a ; X -> b X | c"),
    ("variantless", "S -> a | E x ; E -> !"),
    ("variantless-mid", "S -> a E b | a b ; E -> !"),
    ("variantless-start", "E -> !"),
    ("variantless-nullable-ctx", "S -> A E | a ; A -> | a ; E -> !"),
    ("zero-terminals", "S -> A ; A ->"),
    ("zero-terminals-deep", "S -> A B ; A -> B B ; B ->"),
    ("same-rhs", "S -> A a | B b ; A -> c ; B -> c"),
    ("sep-list", "L -> L , x | x"),
    ("concat-twins-1", "S -> c N X Y | d N Z ; N -> i ; Z -> ( ) ; X -> n ; Y -> [ ]"),
    ("concat-twins-2", "S -> N X Y | S , N Z ; N -> i | N i ; Z -> z | ; X -> x | ; Y -> y Y | w"),
    ("concat-twins-3", "S -> P X Y e | Q Z e ; P -> p ; Q -> p p ; X -> x ; Y -> | y ; Z -> | z Z"),
    ("right-list", "L -> x L |"),
    ("right-list-no-eps", "L -> x L | x"),
    ("right-sep-list-no-eps", "L -> x , L | x"),
    ("right-list-of-items", "L -> I | I , L ; I -> n | ( L )"),
    ("left-list-of-items", "L -> I | L , I ; I -> n | ( L )"),
    ("opt-trailer", "S -> L O ; L -> L x | x ; O -> semi |"),
    ("unit-chain", "S -> A ; A -> B ; B -> C ; C -> c |"),
    ("hidden-left-rec", "S -> A S b | c ; A ->"),
    (
        "json-like",
        "V -> { M } | [ E ] | s | n ; M -> | P ; P -> s : V | P , s : V ; E -> | L ; L -> V | L , V",
    ),
    (
        "expr-unary",
        "E -> E + T | E - T | T ; T -> T * U | U ; U -> - U | P ; P -> ( E ) | n | id ( A ) ; A -> | E | A , E",
    ),
    ("stmt-list", "B -> { L } ; L -> | L S ; S -> id = id semi | B | if id B | if id B else B"),
    ("nested-opt", "S -> A b ; A -> B ; B -> C ; C -> | c C"),
    ("eps-lookahead", "S -> A a | B b ; A -> ; B ->"),
    ("lalr-propagate", "S -> a A c | a B d | b A d ; A -> z ; B -> z z"),
    ("deep-nullable", "S -> A B C D e ; A -> | a ; B -> A ; C -> B A ; D -> C C"),
];

pub fn corpus_model(i: usize) -> (String, Model) {
    let (name, text) = CORPUS[i % CORPUS.len()];
    let (cfg, nt_names, _t_names, force_enum) = cfg_from_text(text);
    let mut m = model_from_cfg(&cfg, &force_enum);
    for (i, n) in nt_names.iter().enumerate() {
        m.nts[i].name = format!("{n}x{i}");
    }
    (name.to_string(), m)
}

#[derive(Clone, Debug)]
pub struct Knobs {
    pub max_nts: usize,
    pub max_terms: usize,
    pub max_alts: usize,
    pub max_rhs: usize,
    pub eps_prob: f64,
    pub term_prob: f64,
    pub struct_prob: f64,
    /// Build every nonterminal productive and reachable by construction.
    pub reduced: bool,
}

impl Knobs {
    pub fn draw(rng: &mut Rng) -> Knobs {
        Knobs {
            max_nts: *rng.pick(&[1, 2, 2, 3, 3, 4, 5, 6]),
            max_terms: *rng.pick(&[0, 1, 2, 2, 3, 3, 4, 5]),
            max_alts: *rng.pick(&[1, 2, 3, 3, 4]),
            max_rhs: *rng.pick(&[1, 2, 3, 3, 4, 5]),
            eps_prob: *rng.pick(&[0.0, 0.1, 0.2, 0.4]),
            term_prob: *rng.pick(&[0.3, 0.5, 0.6, 0.8]),
            struct_prob: *rng.pick(&[0.0, 0.3, 0.5]),
            reduced: !rng.chance(0.15),
        }
    }
}

fn rand_rhs(rng: &mut Rng, k: &Knobs, nn_avail: &[usize], nt: usize) -> Vec<Sym> {
    if rng.chance(k.eps_prob) {
        return vec![];
    }
    let len = rng.range(if nt == 0 && nn_avail.is_empty() { 0 } else { 1 }, k.max_rhs);
    let mut out = vec![];
    for _ in 0..len {
        if nt > 0 && (nn_avail.is_empty() || rng.chance(k.term_prob)) {
            out.push(Sym::T(rng.below(nt)));
        } else if !nn_avail.is_empty() {
            out.push(Sym::N(*rng.pick(nn_avail)));
        }
    }
    out
}

/// Plain random context-free grammar.
pub fn random_cfg(rng: &mut Rng, k: &Knobs) -> (Cfg, Vec<bool>) {
    let nn = rng.range(1, k.max_nts);
    let lo_t = if k.max_terms > 0 && rng.chance(0.9) { 1 } else { 0 };
    let nt = rng.range(lo_t, k.max_terms);
    let all: Vec<usize> = (0..nn).collect();
    let mut rules: Vec<Rule> = vec![];
    let mut force_enum = vec![false; nn];
    for n in 0..nn {
        let is_struct = rng.chance(k.struct_prob);
        let nalts = if is_struct {
            1
        } else {
            rng.range(if k.reduced { 1 } else { 0 }, k.max_alts)
        };
        force_enum[n] = !is_struct;
        let mut seen: Vec<Vec<Sym>> = vec![];
        for a in 0..nalts {
            let rhs = if k.reduced && a == 0 {
                // terminating alternative: terminals and earlier nonterminals only
                let earlier: Vec<usize> = (0..n).collect();
                rand_rhs(rng, k, &earlier, nt)
            } else {
                rand_rhs(rng, k, &all, nt)
            };
            if seen.contains(&rhs) {
                continue;
            }
            seen.push(rhs.clone());
            rules.push(Rule { lhs: n, rhs });
        }
        // shuffle the alternatives of this nonterminal so that the terminating one is not always first
        let lo = rules.len() - seen.len();
        let mut tail: Vec<Rule> = rules.split_off(lo);
        rng.shuffle(&mut tail);
        rules.extend(tail);
    }
    let mut start = rng.below(nn);
    if k.reduced {
        // make everything reachable: start = last nonterminal, and give every
        // unreachable nonterminal a use somewhere reachable
        start = nn - 1;
        let cfg0 = Cfg {
            nn,
            nt,
            rules: rules.clone(),
            start,
        };
        let an = crate::lr::analyse(&cfg0);
        for n in 0..nn {
            if !an.reachable[n] {
                // add an alternative `start -> ... n ...` (keeps productivity)
                let mut rhs = vec![Sym::N(n)];
                if nt > 0 && rng.chance(0.7) {
                    rhs.insert(rng.below(2), Sym::T(rng.below(nt)));
                }
                let dup = rules.iter().any(|r| r.lhs == start && r.rhs == rhs);
                if !dup {
                    // keep rules grouped by lhs: insert after the last rule of `start`
                    let pos = rules.iter().rposition(|r| r.lhs == start).map(|p| p + 1).unwrap_or(rules.len());
                    rules.insert(pos, Rule { lhs: start, rhs });
                    force_enum[start] = true;
                }
            }
        }
    }
    (
        Cfg {
            nn,
            nt,
            rules,
            start,
        },
        force_enum,
    )
}

/// Structured grammars composed from list / option / bracket / operator
/// combinators; mostly LALR(1), with recursion, so that they have many long
/// sentences.
pub fn structured_cfg(rng: &mut Rng) -> (Cfg, Vec<bool>) {
    let mut rules: Vec<Rule> = vec![];
    let mut nn = 0usize;
    let mut nt = 0usize;
    let mut fresh_t = |nt: &mut usize| {
        *nt += 1;
        *nt - 1
    };
    // atoms
    let n_atoms = rng.range(1, 3);
    let atom = nn;
    nn += 1;
    let mut atom_alts: Vec<Vec<Sym>> = vec![];
    for _ in 0..n_atoms {
        atom_alts.push(vec![Sym::T(fresh_t(&mut nt))]);
    }
    let mut top = atom;
    let layers = rng.range(1, 4);
    let mut pending_atom_bracket: Option<(usize, usize)> = None;
    for _ in 0..layers {
        let me = nn;
        nn += 1;
        match rng.below(7) {
            0 => {
                // left-recursive list with optional separator
                if rng.chance(0.5) {
                    let sep = fresh_t(&mut nt);
                    rules.push(Rule { lhs: me, rhs: vec![Sym::N(me), Sym::T(sep), Sym::N(top)] });
                } else {
                    rules.push(Rule { lhs: me, rhs: vec![Sym::N(me), Sym::N(top)] });
                }
                rules.push(Rule { lhs: me, rhs: vec![Sym::N(top)] });
            }
            1 => {
                // right-recursive list
                let sep = fresh_t(&mut nt);
                rules.push(Rule { lhs: me, rhs: vec![Sym::N(top)] });
                rules.push(Rule { lhs: me, rhs: vec![Sym::N(top), Sym::T(sep), Sym::N(me)] });
            }
            2 => {
                // possibly-empty left-recursive list with terminator
                let term = fresh_t(&mut nt);
                rules.push(Rule { lhs: me, rhs: vec![] });
                rules.push(Rule { lhs: me, rhs: vec![Sym::N(me), Sym::N(top), Sym::T(term)] });
            }
            3 => {
                // option followed by marker
                let mark = fresh_t(&mut nt);
                let opt = nn;
                nn += 1;
                rules.push(Rule { lhs: me, rhs: vec![Sym::N(opt), Sym::T(mark)] });
                rules.push(Rule { lhs: opt, rhs: vec![] });
                rules.push(Rule { lhs: opt, rhs: vec![Sym::N(top)] });
            }
            4 => {
                // binary operator level, left associative
                let op = fresh_t(&mut nt);
                rules.push(Rule { lhs: me, rhs: vec![Sym::N(me), Sym::T(op), Sym::N(top)] });
                rules.push(Rule { lhs: me, rhs: vec![Sym::N(top)] });
                if rng.chance(0.4) {
                    let op2 = fresh_t(&mut nt);
                    rules.push(Rule { lhs: me, rhs: vec![Sym::N(me), Sym::T(op2), Sym::N(top)] });
                }
            }
            5 => {
                // prefix operator
                let op = fresh_t(&mut nt);
                rules.push(Rule { lhs: me, rhs: vec![Sym::T(op), Sym::N(me)] });
                rules.push(Rule { lhs: me, rhs: vec![Sym::N(top)] });
            }
            _ => {
                // struct-like sequence
                let a = fresh_t(&mut nt);
                let b = fresh_t(&mut nt);
                rules.push(Rule { lhs: me, rhs: vec![Sym::T(a), Sym::N(top), Sym::T(b)] });
            }
        }
        top = me;
    }
    if rng.chance(0.6) {
        // recursion back into the top through brackets in the atom
        let l = fresh_t(&mut nt);
        let r = fresh_t(&mut nt);
        pending_atom_bracket = Some((l, r));
    }
    if let Some((l, r)) = pending_atom_bracket {
        atom_alts.push(vec![Sym::T(l), Sym::N(top), Sym::T(r)]);
    }
    for a in atom_alts {
        rules.push(Rule { lhs: atom, rhs: a });
    }
    // group rules by lhs in nonterminal order
    rules.sort_by_key(|r| r.lhs);
    let mut force_enum = vec![false; nn];
    for n in 0..nn {
        if rng.chance(0.3) {
            force_enum[n] = true;
        }
    }
    (
        Cfg {
            nn,
            nt,
            rules,
            start: top,
        },
        force_enum,
    )
}

/// `S -> p1 E q1 | p1 F q2 | p2 E q2 | p2 F q1 ; E -> beta ; F -> beta`:
/// LR(1) but not LALR(1) (reduce/reduce after merging) when wrapped into a context.
pub fn lr1_not_lalr_family(rng: &mut Rng) -> (Cfg, Vec<bool>) {
    let blen = rng.range(1, 3);
    let extra = rng.range(0, 2);
    let nt = 4 + blen.min(2) + extra;
    let (p1, p2, q1, q2) = (0, 1, 2, 3);
    let beta: Vec<Sym> = (0..blen).map(|i| Sym::T(4 + (i % blen.min(2)))).collect();
    let mut rules = vec![
        Rule { lhs: 0, rhs: vec![Sym::T(p1), Sym::N(1), Sym::T(q1)] },
        Rule { lhs: 0, rhs: vec![Sym::T(p1), Sym::N(2), Sym::T(q2)] },
        Rule { lhs: 0, rhs: vec![Sym::T(p2), Sym::N(1), Sym::T(q2)] },
        Rule { lhs: 0, rhs: vec![Sym::T(p2), Sym::N(2), Sym::T(q1)] },
    ];
    if extra > 0 {
        rules.push(Rule { lhs: 0, rhs: vec![Sym::T(nt - 1)] });
    }
    rules.push(Rule { lhs: 1, rhs: beta.clone() });
    rules.push(Rule { lhs: 2, rhs: beta });
    let cfg = Cfg { nn: 3, nt, rules, start: 0 };
    (cfg, vec![true, rng.chance(0.5), rng.chance(0.5)])
}

/// Shared phrases in several left contexts with different continuations:
/// `Start -> p_i X_i [q_i]; X_i -> P_j [t] | ...; P_j -> short terminal strings with common prefixes`.
/// This is the family in which LR(1) states with equal or nested cores meet, i.e. where
/// state merging, core comparison and lookahead propagation decide the outcome.
pub fn context_cfg(rng: &mut Rng) -> (Cfg, Vec<bool>) {
    let k = rng.range(2, 3); // contexts
    let n_phr = rng.range(2, 3); // shared phrases
    let alpha = rng.range(2, 3); // phrase alphabet
    let n_tail = rng.range(1, 3); // continuation terminals
    // terminals: [0..k) context openers, [k..k+alpha) phrase letters, then tails, then closers
    let t_open = 0;
    let t_alpha = k;
    let t_tail = k + alpha;
    let t_close = t_tail + n_tail;
    let use_close = rng.chance(0.4);
    let nt = t_close + if use_close { k } else { 0 };
    // nonterminals: 0 = Start, 1..=k contexts, then phrases
    let nn = 1 + k + n_phr;
    let mut rules = vec![];
    for i in 0..k {
        let mut rhs = vec![Sym::T(t_open + i), Sym::N(1 + i)];
        if use_close {
            rhs.push(Sym::T(t_close + if rng.chance(0.5) { i } else { (i + 1) % k }));
        }
        rules.push(Rule { lhs: 0, rhs });
    }
    for i in 0..k {
        let n_alts = rng.range(1, 3);
        let mut seen: Vec<Vec<Sym>> = vec![];
        for _ in 0..n_alts {
            let mut rhs = vec![Sym::N(1 + k + rng.below(n_phr))];
            if rng.chance(0.6) {
                rhs.push(Sym::T(t_tail + rng.below(n_tail)));
            }
            if rng.chance(0.15) {
                rhs.insert(0, Sym::T(t_alpha + rng.below(alpha)));
            }
            if !seen.contains(&rhs) {
                seen.push(rhs.clone());
                rules.push(Rule { lhs: 1 + i, rhs });
            }
        }
    }
    let mut phrases: Vec<Vec<Sym>> = vec![];
    for j in 0..n_phr {
        let n_alts = if rng.chance(0.3) { 2 } else { 1 };
        let mut seen: Vec<Vec<Sym>> = vec![];
        for _ in 0..n_alts {
            // share a prefix with an earlier phrase most of the time
            let nonempty: Vec<&Vec<Sym>> = phrases.iter().filter(|p| !p.is_empty()).collect();
            let mut rhs: Vec<Sym> = if !nonempty.is_empty() && rng.chance(0.7) {
                let p = (*rng.pick(&nonempty)).clone();
                let keep = rng.range(1, p.len());
                p[..keep].to_vec()
            } else {
                vec![]
            };
            for _ in 0..rng.range(if rhs.is_empty() { 1 } else { 0 }, 2) {
                rhs.push(Sym::T(t_alpha + rng.below(alpha)));
            }
            if rng.chance(0.1) {
                rhs.clear(); // a nullable phrase
            }
            if !seen.contains(&rhs) {
                seen.push(rhs.clone());
                phrases.push(rhs.clone());
                rules.push(Rule { lhs: 1 + k + j, rhs });
            }
        }
    }
    let force = (0..nn).map(|_| rng.chance(0.4)).collect();
    (Cfg { nn, nt, rules, start: 0 }, force)
}

/// Right-nested recursion through several levels with closers introduced at different depths:
/// `B -> x C ; C -> a | B z` and relatives (self-loops in the automaton that add lookaheads late).
pub fn nested_cfg(rng: &mut Rng) -> (Cfg, Vec<bool>) {
    let depth = rng.range(2, 3);
    let nt = 2 + depth + rng.range(0, 2);
    let mut rules = vec![];
    // N0 -> t0 N1 ; N1 -> leaf | N0 closer | ... ; optional extra levels
    for d in 0..depth {
        let next = (d + 1) % depth;
        let opener = Sym::T(d);
        match rng.below(3) {
            0 => rules.push(Rule { lhs: d, rhs: vec![opener, Sym::N(next)] }),
            1 => {
                rules.push(Rule { lhs: d, rhs: vec![opener, Sym::N(next)] });
                rules.push(Rule { lhs: d, rhs: vec![Sym::T(depth)] });
            }
            _ => {
                rules.push(Rule { lhs: d, rhs: vec![Sym::T(depth)] });
                rules.push(Rule { lhs: d, rhs: vec![Sym::N(next), Sym::T(depth + 1 + rng.below(nt - depth - 1))] });
            }
        }
    }
    // make sure something terminates
    if !rules.iter().any(|r| r.rhs.iter().all(|s| matches!(s, Sym::T(_)))) {
        rules.push(Rule { lhs: depth - 1, rhs: vec![Sym::T(depth)] });
    }
    rules.sort_by_key(|r| r.lhs);
    rules.dedup();
    let force = (0..depth).map(|_| rng.chance(0.5)).collect();
    (Cfg { nn: depth, nt, rules, start: 0 }, force)
}

/// Chains of nonterminals that reach the empty string (or a terminal) only through each other,
/// used where the symbol after the chain decides a conflict; declaration order is left to
/// `permute_declarations`.  Fix-points that stop a round early, or FIRST/nullable computations
/// that depend on declaration order, show here.
pub fn nullable_chain_cfg(rng: &mut Rng) -> (Cfg, Vec<bool>) {
    let k = *rng.pick(&[2usize, 3, 3, 4, 5, 6, 8, 12]);
    // nonterminals: 0 = S, 1 = T, 2 = U, 3.. = chain A1..Ak ; terminals: 0 = t, 1 = x, 2 = y, 3 = z
    let a = |i: usize| Sym::N(3 + i);
    let mut rules = vec![];
    match rng.below(5) {
        0 => {
            rules.push(Rule { lhs: 0, rhs: vec![Sym::N(1), a(0), Sym::T(1)] });
            rules.push(Rule { lhs: 0, rhs: vec![Sym::N(2), Sym::T(1)] });
        }
        1 => {
            rules.push(Rule { lhs: 0, rhs: vec![Sym::N(1), a(0), Sym::T(1)] });
            rules.push(Rule { lhs: 0, rhs: vec![Sym::N(2), Sym::T(2)] });
        }
        2 => {
            rules.push(Rule { lhs: 0, rhs: vec![a(0), Sym::T(1)] });
            rules.push(Rule { lhs: 0, rhs: vec![Sym::N(1), a(0), a(0), Sym::T(2)] });
        }
        3 => {
            rules.push(Rule { lhs: 0, rhs: vec![Sym::N(1), a(0), a(k - 1), Sym::T(1)] });
            rules.push(Rule { lhs: 0, rhs: vec![Sym::N(2), a(k - 1), Sym::T(2)] });
        }
        _ => {
            rules.push(Rule { lhs: 0, rhs: vec![a(0), Sym::N(1)] });
            rules.push(Rule { lhs: 0, rhs: vec![Sym::N(2), a(0), Sym::T(1)] });
        }
    }
    rules.push(Rule { lhs: 1, rhs: vec![Sym::T(0)] });
    rules.push(Rule { lhs: 2, rhs: vec![Sym::T(0)] });
    for i in 0..k {
        if i + 1 < k {
            rules.push(Rule { lhs: 3 + i, rhs: vec![a(i + 1)] });
            if rng.chance(0.2) {
                rules.push(Rule { lhs: 3 + i, rhs: vec![Sym::T(3)] });
            }
            if rng.chance(0.15) {
                rules.push(Rule { lhs: 3 + i, rhs: vec![a(i + 1), a(i + 1)] });
            }
        } else {
            // back edges from the bottom link to the top / middle of the chain: facts (nullability, then
            // terminals) have to climb the chain several times, which needs ~2n rounds of a naive fix-point
            if rng.chance(0.4) {
                let j = if rng.chance(0.6) { 0 } else { rng.below(k) };
                rules.push(Rule { lhs: 3 + i, rhs: vec![a(j), Sym::T(3)] });
            }
            if rng.chance(0.15) {
                rules.push(Rule { lhs: 3 + i, rhs: vec![a(0), a(rng.below(k)), Sym::T(2)] });
            }
            match rng.below(4) {
                0 => rules.push(Rule { lhs: 3 + i, rhs: vec![Sym::T(3)] }),
                1 => {
                    rules.push(Rule { lhs: 3 + i, rhs: vec![] });
                    rules.push(Rule { lhs: 3 + i, rhs: vec![Sym::T(3)] });
                }
                _ => rules.push(Rule { lhs: 3 + i, rhs: vec![] }),
            }
        }
    }
    let nn = 3 + k;
    let force = (0..nn).map(|_| rng.chance(0.3)).collect();
    (Cfg { nn, nt: 4, rules, start: 0 }, force)
}

/// Large grammars whose sizes cross the thresholds at which index arithmetic, bit sets, string
/// formatting and sorting of numbered names go wrong (9/10/11, 16, 32, 64, 100, 128, 256 ...):
/// many terminals, many nonterminals, many rules, many states.
pub fn big_cfg(rng: &mut Rng, max_states_hint: usize) -> (Cfg, Vec<bool>) {
    // (variant 7 makes automata of thousands of states: only where nothing is compiled)
    let v = if max_states_hint >= 400 { rng.below(8) } else { rng.below(7) };
    big_cfg_variant(rng, max_states_hint, v)
}

pub fn big_cfg_variant(rng: &mut Rng, max_states_hint: usize, variant: usize) -> (Cfg, Vec<bool>) {
    const SIZES: &[usize] = &[9, 10, 11, 10, 15, 16, 17, 16, 31, 32, 33, 32, 63, 64, 65, 64, 66, 99, 100, 101, 120, 127, 128, 129, 130];
    let mut n = *rng.pick(SIZES);
    match variant {
        7 => {
            // the NUMBER OF STATES on a threshold (2^8 .. 2^14): a chain of L states (one long right-hand
            // side, cheap for kiki) directly followed by a small recursive gadget whose states are
            // discovered last and looked up again (several incoming transitions, lookaheads arriving
            // late) - so whatever happens to "state number T" happens to a state that matters
            let t = *rng.pick(&[256usize, 512, 1024, 2048, 4096, 4096, 4096, 8192, 16_384]);
            let len = t - rng.below(14);
            let (a, l, r, x) = (0usize, 1usize, 2usize, 3usize);
            let mut rhs: Vec<Sym> = (0..len).map(|i| if rng.chance(0.9) { Sym::T(a) } else { Sym::T(i % 2 * 3) }).collect();
            rhs.push(Sym::N(1));
            let mut rules = vec![Rule { lhs: 0, rhs }];
            rules.push(Rule { lhs: 1, rhs: vec![Sym::T(l), Sym::N(1), Sym::T(r)] });
            rules.push(Rule { lhs: 1, rhs: vec![Sym::T(x)] });
            if rng.chance(0.5) {
                rules.push(Rule { lhs: 1, rhs: vec![Sym::T(l), Sym::T(r), Sym::N(1)] });
            }
            (Cfg { nn: 2, nt: 4, rules, start: 0 }, vec![rng.chance(0.3), true])
        }
        6 => {
            // very many terminals (column indices beyond 2^7 and 2^8) with tiny lookahead sets, so that
            // kiki's construction stays fast: the terminals stand in a row that is cut into 1-4
            // productions, followed by a small left-recursive list over the *last* terminals
            let n = *rng.pick(&[100usize, 126, 127, 128, 129, 130, 200, 254, 255, 256, 257, 258, 300, 316]);
            let n = n.min(crate::lr::MAX_T - 1);
            let cuts = rng.range(1, 4);
            let mut rules = vec![];
            // 0: S, 1: E, 2..2+cuts: row pieces
            let mut s_rhs: Vec<Sym> = (0..cuts).map(|k| Sym::N(2 + k)).collect();
            s_rhs.push(Sym::N(1));
            rules.push(Rule { lhs: 0, rhs: s_rhs });
            if rng.chance(0.5) {
                rules.push(Rule { lhs: 0, rhs: vec![] });
            }
            let (a, b, c) = (n - 1, n - 2, rng.range(n / 2, n - 1));
            rules.push(Rule { lhs: 1, rhs: vec![Sym::N(1), Sym::T(a), Sym::T(b)] });
            rules.push(Rule { lhs: 1, rhs: vec![Sym::T(c)] });
            let mut at = 0;
            for k in 0..cuts {
                let end = if k + 1 == cuts { n } else { (at + 1 + rng.below(n - at - (cuts - k))).min(n - (cuts - k - 1)) };
                rules.push(Rule { lhs: 2 + k, rhs: (at..end).map(Sym::T).collect() });
                at = end;
            }
            (Cfg { nn: 2 + cuts, nt: n, rules, start: 0 }, (0..2 + cuts).map(|_| rng.chance(0.3)).collect())
        }
        4 => {
            // one production with a very long right-hand side (16..70 symbols), inside a small list grammar
            let len = *rng.pick(&[16usize, 17, 31, 32, 33, 64, 65, 100, 127, 128, 129, 255, 256, 257, 258, 300]);
            let nt = 6;
            let mut rhs: Vec<Sym> = (0..len).map(|i| if i % 7 == 3 { Sym::N(1) } else { Sym::T(i % (nt - 1)) }).collect();
            rhs[0] = Sym::T(nt - 1);
            let rules = vec![
                Rule { lhs: 0, rhs: vec![] },
                Rule { lhs: 0, rhs: vec![Sym::N(0), Sym::N(2)] },
                Rule { lhs: 1, rhs: vec![Sym::T(0)] },
                Rule { lhs: 1, rhs: vec![Sym::T(1), Sym::N(1)] },
                Rule { lhs: 2, rhs },
            ];
            (Cfg { nn: 3, nt, rules, start: 0 }, vec![true, true, rng.chance(0.5)])
        }
        5 => {
            // many rules and many nonterminals: n nonterminals with 3 alternatives each (3n rules)
            let n = if max_states_hint >= 400 && rng.chance(0.3) { *rng.pick(&[85usize, 86, 100, 128]) } else { n.min(max_states_hint / 5).max(3) };
            let mut rules = vec![];
            for i in 0..n {
                rules.push(Rule { lhs: i, rhs: vec![Sym::T(0), Sym::N((i + 1) % n), Sym::T(1)] });
                rules.push(Rule { lhs: i, rhs: vec![Sym::T(2 + i % 3)] });
                rules.push(Rule { lhs: i, rhs: vec![Sym::T(5), Sym::T(2 + (i + 1) % 3), Sym::N((i + 2) % n)] });
            }
            (Cfg { nn: n, nt: 6, rules, start: 0 }, (0..n).map(|_| true).collect())
        }
        0 => {
            // many terminals, flat: S -> t_i S | t_i  (n terminals, ~2n+2 states, 2n rules)
            n = n.min(crate::lr::MAX_T - 1);
            let mut rules = vec![];
            for t in 0..n {
                rules.push(Rule { lhs: 0, rhs: vec![Sym::T(t), Sym::N(0)] });
                if t % 2 == 0 {
                    rules.push(Rule { lhs: 0, rhs: vec![Sym::T(t)] });
                }
            }
            (Cfg { nn: 1, nt: n, rules, start: 0 }, vec![true])
        }
        1 => {
            // a chain of n nonterminals: N_i -> a N_{i+1} | b N_{i+1} c ; N_n -> d   (≈ 6n states)
            let n = if max_states_hint >= 400 && rng.chance(0.3) { *rng.pick(&[127usize, 128, 129, 255, 256, 257, 300]) } else { n.min(max_states_hint / 6).max(3) };
            let mut rules = vec![];
            for i in 0..n {
                rules.push(Rule { lhs: i, rhs: vec![Sym::T(0), Sym::N(i + 1)] });
                rules.push(Rule { lhs: i, rhs: vec![Sym::T(1), Sym::N(i + 1), Sym::T(2)] });
            }
            rules.push(Rule { lhs: n, rhs: vec![Sym::T(3)] });
            (Cfg { nn: n + 1, nt: 4, rules, start: 0 }, (0..=n).map(|_| rng.chance(0.3)).collect())
        }
        2 => {
            // operator precedence with many levels: E_i -> E_i op_i E_{i+1} | E_{i+1}; E_n -> num | ( E_0 )
            let n = n.min(24).max(2);
            let mut rules = vec![];
            for i in 0..n {
                rules.push(Rule { lhs: i, rhs: vec![Sym::N(i), Sym::T(i), Sym::N(i + 1)] });
                rules.push(Rule { lhs: i, rhs: vec![Sym::N(i + 1)] });
            }
            rules.push(Rule { lhs: n, rhs: vec![Sym::T(n)] });
            rules.push(Rule { lhs: n, rhs: vec![Sym::T(n + 1), Sym::N(0), Sym::T(n + 2)] });
            (Cfg { nn: n + 1, nt: n + 3, rules, start: 0 }, (0..=n).map(|_| rng.chance(0.3)).collect())
        }
        _ => {
            // one enum with many alternatives over many terminals, used in a list: many rules
            let n = n.min(crate::lr::MAX_T - 2);
            let mut rules = vec![Rule { lhs: 0, rhs: vec![] }, Rule { lhs: 0, rhs: vec![Sym::N(0), Sym::N(1), Sym::T(n)] }];
            for t in 0..n {
                let mut rhs = vec![Sym::T(t)];
                if t % 3 == 1 {
                    rhs.push(Sym::T((t + 1) % n));
                }
                if t % 3 == 2 {
                    rhs.push(Sym::N(1));
                    rhs.push(Sym::T(t));
                }
                rules.push(Rule { lhs: 1, rhs });
            }
            (Cfg { nn: 2, nt: n + 1, rules, start: 0 }, vec![true, true])
        }
    }
}

/// Add a dead nonterminal (a variant-less enum, or one with only left-/self-recursive rules) and
/// 1-2 alternatives that mention it after at least one live symbol.  The language is unchanged,
/// but FIRST/closure computations and the error position (defined through the canonical LR(1)
/// parser for such grammars) have to treat the dead symbol correctly.
pub fn add_dead_nonterminal(cfg: &Cfg, force: &[bool], rng: &mut Rng) -> (Cfg, Vec<bool>) {
    let mut rules = cfg.rules.clone();
    let dead = cfg.nn;
    let mut force = force.to_vec();
    force.resize(cfg.nn, false);
    force.push(true);
    let mut nt = cfg.nt;
    for _ in 0..rng.range(1, 2) {
        if cfg.rules.is_empty() {
            break;
        }
        if rng.chance(0.6) {
            // an alternative with a prefix of its own: `X -> t B Dead [tail]` with a fresh (or random)
            // terminal t, a live nonterminal B directly before the dead symbol, X mostly the start symbol
            let lhs = if rng.chance(0.7) { cfg.start } else { rng.below(cfg.nn) };
            let t = if rng.chance(0.7) && nt < crate::lr::MAX_T {
                nt += 1;
                nt - 1
            } else if nt > 0 {
                rng.below(nt)
            } else {
                continue;
            };
            let b = rng.below(cfg.nn);
            let mut rhs = vec![Sym::T(t), Sym::N(b), Sym::N(dead)];
            if rng.chance(0.5) {
                rhs.push(Sym::T(rng.below(nt)));
            }
            if !rules.iter().any(|r| r.lhs == lhs && r.rhs == rhs) {
                let pos = rules.iter().rposition(|r| r.lhs == lhs).map(|p| p + 1).unwrap_or(rules.len());
                rules.insert(pos, Rule { lhs, rhs });
                force[lhs] = true;
            }
            continue;
        }
        let base = rng.pick(&cfg.rules).clone();
        let mut rhs = base.rhs.clone();
        if rhs.is_empty() {
            if nt == 0 {
                continue;
            }
            rhs.push(Sym::T(rng.below(nt)));
        }
        // the dead symbol goes after at least one live symbol
        let at = rng.range(1, rhs.len());
        rhs.insert(at, Sym::N(dead));
        if nt > 0 && rng.chance(0.5) {
            rhs.push(Sym::T(rng.below(nt)));
        }
        if !rules.iter().any(|r| r.lhs == base.lhs && r.rhs == rhs) {
            let pos = rules.iter().rposition(|r| r.lhs == base.lhs).map(|p| p + 1).unwrap_or(rules.len());
            rules.insert(pos, Rule { lhs: base.lhs, rhs });
            force[base.lhs] = true;
        }
    }
    match rng.below(3) {
        0 => {} // variant-less enum
        1 => rules.push(Rule { lhs: dead, rhs: vec![Sym::N(dead)] }),
        _ => {
            if nt > 0 {
                rules.push(Rule { lhs: dead, rhs: vec![Sym::N(dead), Sym::T(rng.below(nt))] });
            }
        }
    }
    rules.sort_by_key(|r| r.lhs); // stable: keeps rules grouped per nonterminal in declaration order
    (Cfg { nn: cfg.nn + 1, nt, rules, start: cfg.start }, force)
}

/// Relabel nonterminals and terminals by random permutations: the same grammar with a different
/// declaration order of nonterminals (rules stay grouped per nonterminal, alternatives keep their
/// relative order) and of terminals.
pub fn permute_declarations(cfg: &Cfg, force: &[bool], rng: &mut Rng) -> (Cfg, Vec<bool>) {
    let mut pn: Vec<usize> = (0..cfg.nn).collect();
    let mut pt: Vec<usize> = (0..cfg.nt).collect();
    rng.shuffle(&mut pn);
    rng.shuffle(&mut pt);
    let map = |s: &Sym| match s {
        Sym::N(i) => Sym::N(pn[*i]),
        Sym::T(i) => Sym::T(pt[*i]),
    };
    let mut rules: Vec<Rule> = cfg.rules.iter().map(|r| Rule { lhs: pn[r.lhs], rhs: r.rhs.iter().map(map).collect() }).collect();
    rules.sort_by_key(|r| r.lhs); // stable: alternatives keep their order
    let mut f = vec![false; cfg.nn];
    for (i, x) in force.iter().enumerate().take(cfg.nn) {
        f[pn[i]] = *x;
    }
    (Cfg { nn: cfg.nn, nt: cfg.nt, rules, start: pn[cfg.start] }, f)
}

/// Embed `inner` into a random context: wrap its start symbol in a bracket,
/// a list or a sequence with fresh terminals.
pub fn embed(rng: &mut Rng, inner: &Cfg, inner_force: &[bool]) -> (Cfg, Vec<bool>) {
    let mut nn = inner.nn;
    let mut nt = inner.nt;
    let mut rules = inner.rules.clone();
    let mut force = inner_force.to_vec();
    let mut top = inner.start;
    for _ in 0..rng.range(1, 2) {
        let me = nn;
        nn += 1;
        force.push(rng.chance(0.3));
        match rng.below(4) {
            0 => {
                let (l, r) = (nt, nt + 1);
                nt += 2;
                rules.push(Rule { lhs: me, rhs: vec![Sym::T(l), Sym::N(top), Sym::T(r)] });
            }
            1 => {
                let sep = nt;
                nt += 1;
                rules.push(Rule { lhs: me, rhs: vec![Sym::N(top)] });
                rules.push(Rule { lhs: me, rhs: vec![Sym::N(me), Sym::T(sep), Sym::N(top)] });
            }
            2 => {
                let a = nt;
                nt += 1;
                rules.push(Rule { lhs: me, rhs: vec![Sym::T(a), Sym::N(top)] });
                rules.push(Rule { lhs: me, rhs: vec![Sym::T(a), Sym::T(a)] });
            }
            _ => {
                let a = nt;
                nt += 1;
                rules.push(Rule { lhs: me, rhs: vec![Sym::N(top), Sym::T(a)] });
                rules.push(Rule { lhs: me, rhs: vec![] });
            }
        }
        top = me;
    }
    if nt > crate::lr::MAX_T {
        return (inner.clone(), inner_force.to_vec());
    }
    (Cfg { nn, nt, rules, start: top }, force)
}

/// Which source produced a grammar (reported in the evidence).
#[derive(Clone, Copy, Debug, PartialEq, Eq, Hash, PartialOrd, Ord)]
pub enum Source {
    Corpus,
    CorpusEmbedded,
    Random,
    RandomUnreduced,
    Structured,
    Lr1NotLalrFamily,
    SharedContexts,
    Nested,
    NullableChain,
    Big,
    Enumerated,
    Echo,
    Overlap,
}

impl Source {
    pub fn name(&self) -> &'static str {
        match self {
            Source::Echo => "echo (doubled terminals, self-embedding, nullable)",
            Source::Overlap => "overlap (several wide enums of single-terminal alternatives over shared terminals)",
            Source::Corpus => "corpus",
            Source::CorpusEmbedded => "corpus-embedded",
            Source::Random => "random-reduced",
            Source::RandomUnreduced => "random-unreduced",
            Source::Structured => "structured",
            Source::Lr1NotLalrFamily => "lr1-not-lalr-family",
            Source::SharedContexts => "shared-contexts",
            Source::Nested => "nested-recursion",
            Source::NullableChain => "nullable-chain",
            Source::Big => "big (sizes across 10/16/32/64/100/128/256/316, state counts across 2^8..2^14)",
            Source::Enumerated => "enumerated",
        }
    }
}

/// The grammar for case `index`: the corpus first, then a fixed mix.
pub fn grammar_for_case(rng: &mut Rng, index: u64) -> (Source, Cfg, Vec<bool>) {
    if (index as usize) < CORPUS.len() {
        let (cfg, _, _, force) = cfg_from_text(CORPUS[index as usize].1);
        return (Source::Corpus, cfg, force);
    }
    let (source, mut cfg, mut force) = grammar_for_case_inner(rng);
    if source != Source::Big && rng.chance(0.08) {
        let (c, f) = add_dead_nonterminal(&cfg, &force, rng);
        cfg = c;
        force = f;
    }
    if source != Source::Big && rng.chance(0.05) {
        let (c, f) = pad_to_threshold(&cfg, &force, rng);
        cfg = c;
        force = f;
    }
    if rng.chance(0.5) {
        let (c, f) = permute_declarations(&cfg, &force, rng);
        return (source, c, f);
    }
    (source, cfg, force)
}

/// Like `grammar_for_case(rng, u64::MAX)` but never one of the big grammars (for workloads that
/// call generate many times per grammar).
pub fn small_grammar(rng: &mut Rng) -> (Source, Cfg, Vec<bool>) {
    loop {
        let (s, c, f) = grammar_for_case(rng, u64::MAX);
        if s != Source::Big {
            return (s, c, f);
        }
    }
}

/// Tiny grammars over 2-3 terminals in which one nonterminal has alternatives with the SAME terminal
/// several times in a row, embeds itself between terminals and may be empty (`N -> q q a a | q N q |`):
/// states with self-loops on a terminal, the same rule at several dots in one state, lookaheads created
/// by a state's own closure.  Mostly conflicting: the subject of C11 (and of C04's "conflict" side).
pub fn echo_cfg(rng: &mut Rng) -> (Cfg, Vec<bool>) {
    let (q, a, x) = (Sym::T(0), Sym::T(1), Sym::T(2));
    let n = Sym::N(1);
    let doubled: Vec<Vec<Sym>> = vec![vec![q, q, a, a], vec![q, q], vec![a, a], vec![q, q, a], vec![q, q, q], vec![q, q, a, a, a], vec![q, q, n, a, a], vec![q, q, n], vec![a, a, q, q]];
    let embed: Vec<Vec<Sym>> = vec![vec![q, n, q], vec![q, n, a], vec![n, q], vec![q, n], vec![a, n, a], vec![q, n, q, q], vec![n, n], vec![q, q, n, q, q]];
    let other: Vec<Vec<Sym>> = vec![vec![q, a], vec![a], vec![q], vec![a, q]];
    let mut rules = vec![];
    let mut st: Vec<Vec<Sym>> = vec![vec![x, n, a], vec![n, a], vec![x, n], vec![n], vec![x, n, q], vec![a, n, a], vec![x, n, a]];
    rng.shuffle(&mut st);
    for r in st.into_iter().take(if rng.chance(0.8) { 1 } else { 2 }) {
        rules.push(Rule { lhs: 0, rhs: r });
    }
    let mut alts: Vec<Vec<Sym>> = vec![];
    if rng.chance(0.6) {
        alts.push(vec![]);
    }
    let mut d = doubled;
    rng.shuffle(&mut d);
    alts.extend(d.into_iter().take(rng.range(1, 2)));
    if rng.chance(0.85) {
        alts.push(rng.pick(&embed).clone());
    }
    if rng.chance(0.25) {
        alts.push(rng.pick(&other).clone());
    }
    alts.sort();
    alts.dedup();
    rng.shuffle(&mut alts);
    for r in alts {
        rules.push(Rule { lhs: 1, rhs: r });
    }
    // (terminal names decide which of two conflicting actions claims a cell first: the caller shuffles them)
    (Cfg { nn: 2, nt: 3, rules, start: 0 }, vec![rng.chance(0.5), true])
}

/// Two to four wide enums whose alternatives are single terminals drawn from one shared pool (token
/// classes: `Keyword -> if | else | ...`, `Name -> id | if | ...`), told apart only by the terminal that
/// follows: `S -> E z1 | F z2 | G z3`.  Dozens of states whose ACTION rows hold nothing but reduces, with
/// rule numbers spread over a wide range, differing from state to state in one or two columns - and the
/// reduced variants are unit-like, so only the TREE tells a wrong reduce from a right one.
pub fn overlap_cfg(rng: &mut Rng) -> (Cfg, Vec<bool>) {
    let k = *rng.pick(&[6usize, 12, 20, 31, 32, 33, 40, 64]);
    let enums = rng.range(2, 4);
    // terminals: 0..k shared pool, then the followers z_1..z_enums (adjacent columns), declared last
    let nt = k + enums;
    let mut rules = vec![];
    for e in 0..enums {
        rules.push(Rule { lhs: 0, rhs: vec![Sym::N(1 + e), Sym::T(k + e)] });
    }
    for e in 0..enums {
        let mut alts: Vec<usize> = (0..k).filter(|_| rng.chance(0.7)).collect();
        if alts.is_empty() {
            alts.push(rng.below(k));
        }
        rng.shuffle(&mut alts);
        for a in alts {
            rules.push(Rule { lhs: 1 + e, rhs: vec![Sym::T(a)] });
        }
    }
    (Cfg { nn: 1 + enums, nt, rules, start: 0 }, vec![true; 1 + enums])
}

/// Unused terminals and unreachable nonterminals up to a threshold count (63/64/65, 127/128/129,
/// 255/256/257): the *declared* counts size tables, bit sets and index types, whether or not the
/// symbols are used.
pub fn pad_to_threshold(cfg: &Cfg, force: &[bool], rng: &mut Rng) -> (Cfg, Vec<bool>) {
    let mut c = cfg.clone();
    let mut f = force.to_vec();
    let pick = |rng: &mut Rng, now: usize| -> usize {
        let ts: Vec<usize> = [15usize, 16, 17, 31, 32, 33, 63, 64, 65, 127, 128, 129, 191, 192, 193, 255, 256, 257].iter().copied().filter(|t| *t >= now).collect();
        if ts.is_empty() {
            now
        } else {
            *rng.pick(&ts)
        }
    };
    if rng.chance(0.8) {
        let t = pick(rng, c.nt).min(crate::lr::MAX_T - 1);
        c.nt = c.nt.max(t);
    }
    if rng.chance(0.35) {
        let t = pick(rng, c.nn).min(200);
        while c.nn < t {
            // unreachable, productive
            c.rules.push(Rule { lhs: c.nn, rhs: if c.nt > 0 && rng.chance(0.5) { vec![Sym::T(rng.below(c.nt))] } else { vec![] } });
            f.push(rng.chance(0.3));
            c.nn += 1;
        }
    }
    (c, f)
}

fn grammar_for_case_inner(rng: &mut Rng) -> (Source, Cfg, Vec<bool>) {
    if rng.below(160) == 0 {
        let (c, f) = big_cfg(rng, 400);
        return (Source::Big, c, f);
    }
    if rng.below(14) == 0 {
        let (c, f) = echo_cfg(rng);
        return (Source::Echo, c, f);
    }
    if rng.below(40) == 0 {
        let (c, f) = overlap_cfg(rng);
        return (Source::Overlap, c, f);
    }
    match rng.below(26) {
        24..=25 => {
            let (c, f) = nullable_chain_cfg(rng);
            (Source::NullableChain, c, f)
        }
        20..=22 => {
            let (c, f) = context_cfg(rng);
            (Source::SharedContexts, c, f)
        }
        23 => {
            let (c, f) = nested_cfg(rng);
            (Source::Nested, c, f)
        }
        0..=2 => {
            let (cfg, _, _, force) = cfg_from_text(rng.pick(CORPUS).1);
            let (c, f) = embed(rng, &cfg, &force);
            (Source::CorpusEmbedded, c, f)
        }
        3..=5 => {
            let (c, f) = structured_cfg(rng);
            (Source::Structured, c, f)
        }
        6 => {
            let (c, f) = lr1_not_lalr_family(rng);
            if rng.chance(0.5) {
                let (c2, f2) = embed(rng, &c, &f);
                (Source::Lr1NotLalrFamily, c2, f2)
            } else {
                (Source::Lr1NotLalrFamily, c, f)
            }
        }
        _ => {
            let k = Knobs::draw(rng);
            let (c, f) = random_cfg(rng, &k);
            (
                if k.reduced {
                    Source::Random
                } else {
                    Source::RandomUnreduced
                },
                c,
                f,
            )
        }
    }
}

// ---------------------------------------------------------------------------
// Small-scope enumeration: every grammar with <= 2 nonterminals, <= 2
// terminals, <= 2 alternatives per nonterminal and right-hand sides of length <= 2.

pub struct SmallScope {
    rhs_pool: Vec<Vec<Vec<Sym>>>, // per (nn, nt) flattened by index nn*3+nt
}

fn all_rhs(nn: usize, nt: usize) -> Vec<Vec<Sym>> {
    let mut syms = vec![];
    for t in 0..nt {
        syms.push(Sym::T(t));
    }
    for n in 0..nn {
        syms.push(Sym::N(n));
    }
    let mut out = vec![vec![]];
    for a in &syms {
        out.push(vec![*a]);
    }
    for a in &syms {
        for b in &syms {
            out.push(vec![*a, *b]);
        }
    }
    out
}

/// Alternative sets for one nonterminal: {} (variant-less), {r}, {r1 < r2}.
fn alt_sets(pool: &[Vec<Sym>]) -> Vec<Vec<Vec<Sym>>> {
    let mut out = vec![vec![]];
    for r in pool {
        out.push(vec![r.clone()]);
    }
    for i in 0..pool.len() {
        for j in 0..pool.len() {
            if i != j {
                out.push(vec![pool[i].clone(), pool[j].clone()]);
            }
        }
    }
    out
}

impl SmallScope {
    pub fn new() -> SmallScope {
        let mut rhs_pool = vec![];
        for nn in 0..3 {
            for nt in 0..3 {
                rhs_pool.push(all_rhs(nn, nt));
            }
        }
        SmallScope { rhs_pool }
    }

    /// Number of grammars in the scope, and the `i`-th of them.
    pub fn count(&self) -> u64 {
        let mut total = 0u64;
        for nn in 1..=2usize {
            for nt in 0..=2usize {
                let a = alt_sets(&self.rhs_pool[nn * 3 + nt]).len() as u64;
                total += a.pow(nn as u32) * nn as u64; // × start choice
            }
        }
        total
    }

    pub fn get(&self, mut i: u64) -> Option<Cfg> {
        for nn in 1..=2usize {
            for nt in 0..=2usize {
                let sets = alt_sets(&self.rhs_pool[nn * 3 + nt]);
                let a = sets.len() as u64;
                let block = a.pow(nn as u32) * nn as u64;
                if i >= block {
                    i -= block;
                    continue;
                }
                let start = (i % nn as u64) as usize;
                i /= nn as u64;
                let mut rules = vec![];
                for n in 0..nn {
                    let k = (i % a) as usize;
                    i /= a;
                    for rhs in &sets[k] {
                        rules.push(Rule { lhs: n, rhs: rhs.clone() });
                    }
                }
                return Some(Cfg { nn, nt, rules, start });
            }
        }
        None
    }
}

// ---------------------------------------------------------------------------
// Sentences

/// Random sentence by leftmost derivation with a length target; iterative, so
/// long sentences do not need a deep stack.  `None` if the start symbol is
/// unproductive.
pub fn random_sentence(cfg: &Cfg, an: &Analysis, rng: &mut Rng, target: usize) -> Option<Vec<usize>> {
    random_sentence_mode(cfg, an, rng, target, false)
}

/// `monotone`: every nonterminal gets one preferred rule for the whole derivation (followed with
/// probability 0.92 while it fits), which yields long *pure* chains - one list of hundreds of
/// elements, one nesting hundreds deep - instead of a mixture.
pub fn random_sentence_mode(cfg: &Cfg, an: &Analysis, rng: &mut Rng, target: usize, monotone: bool) -> Option<Vec<usize>> {
    if !an.productive[cfg.start] {
        return None;
    }
    let (height, rule_height) = heights(cfg);
    // recursive rules (some right-hand-side nonterminal derives a form containing the left-hand side):
    // while far below the target they are preferred, so that long sentences really are long lists /
    // deep nestings instead of many short phrases
    let recursive: Vec<bool> = if cfg.nn <= 48 {
        let n = cfg.nn;
        let mut reach = vec![vec![false; n]; n];
        for r in &cfg.rules {
            for s in &r.rhs {
                if let Sym::N(m) = s {
                    reach[r.lhs][*m] = true;
                }
            }
        }
        for k in 0..n {
            for i in 0..n {
                if reach[i][k] {
                    for j in 0..n {
                        if reach[k][j] {
                            reach[i][j] = true;
                        }
                    }
                }
            }
        }
        cfg.rules.iter().map(|r| r.rhs.iter().any(|s| matches!(s, Sym::N(m) if *m == r.lhs || reach[*m][r.lhs]))).collect()
    } else {
        vec![false; cfg.rules.len()]
    };
    // the preferred rule of the monotone mode: mostly a RECURSIVE one (a pure list / a deep nesting that
    // really grows to the target length), whatever the random stream looks like
    let preferred: Vec<Option<usize>> = (0..cfg.nn)
        .map(|n| {
            let c: Vec<usize> = cfg.rules_of(n).filter(|r| an.rule_min_len[*r] != usize::MAX).collect();
            let rec: Vec<usize> = c.iter().copied().filter(|r| recursive[*r]).collect();
            if c.is_empty() {
                None
            } else if !rec.is_empty() && rng.chance(0.85) {
                Some(*rng.pick(&rec))
            } else {
                Some(*rng.pick(&c))
            }
        })
        .collect();
    let mut out = vec![];
    let mut stack = vec![Sym::N(cfg.start)];
    let mut rest_min: usize = an.min_len[cfg.start];
    let mut steps = 0usize;
    let _ = height;
    while let Some(s) = stack.pop() {
        match s {
            Sym::T(t) => {
                out.push(t);
                rest_min -= 1;
            }
            Sym::N(n) => {
                steps += 1;
                rest_min -= an.min_len[n];
                let cands: Vec<usize> = cfg.rules_of(n).filter(|r| an.rule_min_len[*r] != usize::MAX).collect();
                let fits: Vec<usize> = cands
                    .iter()
                    .copied()
                    .filter(|r| out.len() + rest_min + an.rule_min_len[*r] <= target)
                    .collect();
                let pref = preferred[n].filter(|p| monotone && fits.contains(p));
                let r = if let (Some(p), true) = (pref, steps < 20 * target + 200 && rng.chance(0.92)) {
                    p
                } else if !fits.is_empty() && steps < 20 * target + 200 {
                    let growing: Vec<usize> = fits.iter().copied().filter(|r| recursive[*r]).collect();
                    if !growing.is_empty() && (out.len() + rest_min) * 5 < target * 4 && rng.chance(0.9) {
                        *rng.pick(&growing)
                    } else {
                        *rng.pick(&fits)
                    }
                } else {
                    // forced termination: strictly decreasing derivation height
                    *cands
                        .iter()
                        .min_by_key(|r| (rule_height[**r], an.rule_min_len[**r]))
                        .unwrap()
                };
                rest_min += an.rule_min_len[r];
                for x in cfg.rules[r].rhs.iter().rev() {
                    stack.push(*x);
                }
            }
        }
        if out.len() > 4 * target + 64 {
            // a grammar whose cheapest completions are long; give up on this draw
            return None;
        }
    }
    Some(out)
}

/// Height of the lowest derivation tree per nonterminal / rule (usize::MAX: none).
pub fn heights(cfg: &Cfg) -> (Vec<usize>, Vec<usize>) {
    let inf = usize::MAX;
    let mut h = vec![inf; cfg.nn];
    let mut rh = vec![inf; cfg.rules.len()];
    loop {
        let mut changed = false;
        for (ri, r) in cfg.rules.iter().enumerate() {
            let mut m = 0usize;
            for s in &r.rhs {
                if let Sym::N(n) = s {
                    if h[*n] == inf {
                        m = inf;
                        break;
                    }
                    m = m.max(h[*n]);
                }
            }
            let v = if m == inf { inf } else { m + 1 };
            if v < rh[ri] {
                rh[ri] = v;
                changed = true;
            }
            if v < h[r.lhs] {
                h[r.lhs] = v;
                changed = true;
            }
        }
        if !changed {
            break;
        }
    }
    (h, rh)
}
