//! R-chart: membership `w ∈ L(G)` straight from the definition of
//! derivability (least fix-point over spans, no grammar transformation), and
//! R-earley: an Earley recogniser that additionally yields the longest viable
//! prefix (for grammars whose nonterminals are all productive).

use crate::model::{Cfg, Sym};

/// `chart[X][i]` = set of `j` with `X =>* w[i..j]` (bitset over 0..=n, n <= 63),
/// computed as a least fix-point over all rules.
pub fn chart_member(cfg: &Cfg, w: &[usize]) -> bool {
    let n = w.len();
    assert!(n <= 62);
    let mut ch = vec![vec![0u64; n + 1]; cfg.nn];
    loop {
        let mut changed = false;
        for r in &cfg.rules {
            for i in 0..=n {
                let mut ends: u64 = 1 << i;
                for s in &r.rhs {
                    let mut ne = 0u64;
                    let mut e = ends;
                    while e != 0 {
                        let p = e.trailing_zeros() as usize;
                        e &= e - 1;
                        match s {
                            Sym::T(t) => {
                                if p < n && w[p] == *t {
                                    ne |= 1 << (p + 1);
                                }
                            }
                            Sym::N(x) => ne |= ch[*x][p],
                        }
                    }
                    ends = ne;
                    if ends == 0 {
                        break;
                    }
                }
                if ch[r.lhs][i] | ends != ch[r.lhs][i] {
                    ch[r.lhs][i] |= ends;
                    changed = true;
                }
            }
        }
        if !changed {
            break;
        }
    }
    ch[cfg.start][0] & (1 << n) != 0
}

#[derive(Clone, Copy, PartialEq, Eq, Hash, PartialOrd, Ord, Debug)]
struct EItem {
    rule: usize, // cfg.rules.len() = augmented
    dot: usize,
    origin: usize,
}

#[derive(Debug, Clone, PartialEq, Eq)]
pub enum Earley {
    Accept,
    /// First index `i` such that `w[0..=i]` is not a prefix of any sentence
    /// (valid when every nonterminal is productive); `None`: `w` is a proper
    /// prefix of a sentence / input ended too early.
    Reject(Option<usize>),
}

pub fn earley(cfg: &Cfg, w: &[usize]) -> Earley {
    let aug = cfg.rules.len();
    let rhs_of = |r: usize| -> Vec<Sym> {
        if r == aug {
            vec![Sym::N(cfg.start)]
        } else {
            cfg.rules[r].rhs.clone()
        }
    };
    let lhs_of = |r: usize| -> Option<usize> {
        if r == aug {
            None
        } else {
            Some(cfg.rules[r].lhs)
        }
    };
    let n = w.len();
    let mut sets: Vec<Vec<EItem>> = vec![vec![]; n + 1];
    sets[0].push(EItem {
        rule: aug,
        dot: 0,
        origin: 0,
    });
    for i in 0..=n {
        // iterate to a fix-point (handles nullable nonterminals naively)
        loop {
            let before = sets[i].len();
            let mut k = 0;
            while k < sets[i].len() {
                let it = sets[i][k];
                k += 1;
                let rhs = rhs_of(it.rule);
                if it.dot < rhs.len() {
                    if let Sym::N(b) = rhs[it.dot] {
                        // predict
                        for r2 in cfg.rules_of(b) {
                            let ni = EItem {
                                rule: r2,
                                dot: 0,
                                origin: i,
                            };
                            if !sets[i].contains(&ni) {
                                sets[i].push(ni);
                            }
                        }
                    }
                } else if let Some(lhs) = lhs_of(it.rule) {
                    // complete
                    let parents: Vec<EItem> = sets[it.origin]
                        .iter()
                        .filter(|p| {
                            let prhs = rhs_of(p.rule);
                            p.dot < prhs.len() && prhs[p.dot] == Sym::N(lhs)
                        })
                        .copied()
                        .collect();
                    for p in parents {
                        let ni = EItem {
                            rule: p.rule,
                            dot: p.dot + 1,
                            origin: p.origin,
                        };
                        if !sets[i].contains(&ni) {
                            sets[i].push(ni);
                        }
                    }
                }
            }
            if sets[i].len() == before {
                break;
            }
        }
        if i < n {
            // scan
            let mut next = vec![];
            for it in &sets[i] {
                let rhs = rhs_of(it.rule);
                if it.dot < rhs.len() && rhs[it.dot] == Sym::T(w[i]) {
                    next.push(EItem {
                        rule: it.rule,
                        dot: it.dot + 1,
                        origin: it.origin,
                    });
                }
            }
            if next.is_empty() {
                return Earley::Reject(Some(i));
            }
            next.sort();
            next.dedup();
            sets[i + 1] = next;
        }
    }
    let accepted = sets[n].iter().any(|it| it.rule == aug && it.dot == 1);
    if accepted {
        Earley::Accept
    } else {
        Earley::Reject(None)
    }
}
