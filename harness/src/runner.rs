//! Emitted-code runner: compile an emitted parser together with a generated
//! driver, feed it token-kind sequences over stdin, record one event per
//! input.  The emitted parser is observed only at its boundary.

use crate::model::*;
use std::io::Write;
use std::path::{Path, PathBuf};
use std::process::{Command, Stdio};

/// Payload pool: (Kiki type text, Rust constructor from `v`/`k`, Debug rendering).
pub const PAYLOADS: &[&str] = &[
    "usize",
    "String",
    "crate::Pay",
    "Vec<usize>",
    "Option<crate::Pay>",
    "std::collections::BTreeMap<usize, Vec<Option<()>>>",
    "()",
    "Option<Box<Vec<usize>>>",
    "Vec<std::option::Option<Box<std::rc::Rc<crate::Pay>>>>",
    "crate::ItSelfNode",
    "Option<usize>",
    "std::boxed::Box<crate::Pay>",
];

pub fn payload_type(kind: usize) -> TypeExpr {
    match kind {
        0 => TypeExpr::path("usize"),
        1 => TypeExpr::path("String"),
        2 => TypeExpr::path("crate::Pay"),
        3 => TypeExpr::Generic(vec!["Vec".into()], vec![TypeExpr::path("usize")]),
        4 => TypeExpr::Generic(vec!["Option".into()], vec![TypeExpr::path("crate::Pay")]),
        5 => TypeExpr::Generic(
            vec!["std".into(), "collections".into(), "BTreeMap".into()],
            vec![
                TypeExpr::path("usize"),
                TypeExpr::Generic(
                    vec!["Vec".into()],
                    vec![TypeExpr::Generic(vec!["Option".into()], vec![TypeExpr::Unit])],
                ),
            ],
        ),
        7 => TypeExpr::Generic(
            vec!["Option".into()],
            vec![TypeExpr::Generic(
                vec!["Box".into()],
                vec![TypeExpr::Generic(vec!["Vec".into()], vec![TypeExpr::path("usize")])],
            )],
        ),
        8 => TypeExpr::Generic(
            vec!["Vec".into()],
            vec![TypeExpr::Generic(
                vec!["std".into(), "option".into(), "Option".into()],
                vec![TypeExpr::Generic(
                    vec!["Box".into()],
                    vec![TypeExpr::Generic(vec!["std".into(), "rc".into(), "Rc".into()], vec![TypeExpr::path("crate::Pay")])],
                )],
            )],
        ),
        9 => TypeExpr::path("crate::ItSelfNode"),
        // same argument lists as kinds 3 and 4 under other callees
        10 => TypeExpr::Generic(vec!["Option".into()], vec![TypeExpr::path("usize")]),
        11 => TypeExpr::Generic(vec!["std".into(), "boxed".into(), "Box".into()], vec![TypeExpr::path("crate::Pay")]),
        _ => TypeExpr::Unit,
    }
}

pub fn payload_value(pos: usize, scheme: usize) -> usize {
    if scheme == 0 {
        pos
    } else {
        (pos * 7919 + 13) % 100_003
    }
}

fn payload_ctor(kind: usize) -> &'static str {
    match kind {
        0 => "v",
        1 => "format!(\"s{}\", v)",
        2 => "crate::Pay(v)",
        3 => "vec![v, k]",
        4 => "Some(crate::Pay(v))",
        5 => "{ let mut m = std::collections::BTreeMap::new(); m.insert(v, vec![None, Some(())]); m }",
        7 => "Some(Box::new(vec![v, k]))",
        8 => "vec![None, Some(Box::new(std::rc::Rc::new(crate::Pay(v))))]",
        9 => "crate::ItSelfNode(v)",
        10 => "Some(v)",
        11 => "Box::new(crate::Pay(v))",
        _ => "()",
    }
}

/// What `{:?}` prints for the payload built for terminal `k` at input position `pos`.
pub fn payload_debug(kind: usize, k: usize, pos: usize, scheme: usize) -> String {
    let v = payload_value(pos, scheme);
    match kind {
        0 => format!("{v}"),
        1 => format!("\"s{v}\""),
        2 => format!("Pay({v})"),
        3 => format!("[{v}, {k}]"),
        4 => format!("Some(Pay({v}))"),
        5 => format!("{{{v}: [None, Some(())]}}"),
        7 => format!("Some([{v}, {k}])"),
        8 => format!("[None, Some(Pay({v}))]"),
        9 => format!("ItSelfNode({v})"),
        10 => format!("Some({v})"),
        11 => format!("Pay({v})"),
        _ => "()".to_string(),
    }
}

pub fn driver_source(m: &Model, pay: &[usize]) -> String {
    let tok = &m.term_enum;
    let start = &m.nts[m.start].name;
    let nterms = m.terms.len();
    let mut arms = String::new();
    for (k, t) in m.terms.iter().enumerate() {
        arms.push_str(&format!("        {k} => gen::{tok}::{}({}),\n", t.name, payload_ctor(pay[k])));
    }
    format!(
        r#"#![allow(warnings)]
mod gen;
#[derive(Debug)]
pub struct Pay(pub usize);
#[derive(Debug)]
pub struct ItSelfNode(pub usize);
use std::cell::Cell;
use std::io::{{BufRead, Write}};
use std::rc::Rc;
const NTERMS: usize = {nterms};

fn val(p: usize, scheme: usize) -> usize {{
    if scheme == 0 {{ p }} else {{ (p * 7919 + 13) % 100_003 }}
}}

fn mk(k: usize, p: usize, scheme: usize) -> gen::{tok} {{
    let v = val(p, scheme);
    match k {{
{arms}        _ => unreachable!(),
    }}
}}

/// Lazy, side-effecting iterator: a token does not exist before it is pulled.
struct It {{
    kinds: Vec<usize>,
    i: usize,
    scheme: usize,
    some: Rc<Cell<usize>>,
    total: Rc<Cell<usize>>,
    /// Not fused: after the `None` that ends the input, this many further tokens follow
    /// (a REPL-like source, `Receiver::try_iter`, `&mut it` with a next record behind the `None`).
    late: usize,
    ended: bool,
}}

impl Iterator for It {{
    type Item = gen::{tok};
    fn next(&mut self) -> Option<gen::{tok}> {{
        self.total.set(self.total.get() + 1);
        if self.i >= self.kinds.len() {{
            if !self.ended || self.late == 0 {{
                self.ended = true;
                return None;
            }}
            // a token that is not part of the input
            let p = self.i;
            let Some(k) = (p * 7 + self.kinds.len()).checked_rem(NTERMS) else {{ return None; }};
            self.late -= 1;
            self.i += 1;
            self.some.set(self.some.get() + 1);
            return Some(mk(k, p, self.scheme));
        }}
        let k = self.kinds[self.i];
        let p = self.i;
        self.i += 1;
        self.some.set(self.some.get() + 1);
        Some(mk(k, p, self.scheme))
    }}
}}

/// A genuinely endless source: the input, then tokens for ever.  Its size hint says so truthfully
/// (`(usize::MAX, None)`, like `repeat` / `cycle`).  Only used for inputs that must be rejected at one
/// of their own tokens, so the endless tail is never reached by a correct parser.
struct Endless {{
    inner: It,
}}

impl Iterator for Endless {{
    type Item = gen::{tok};
    fn next(&mut self) -> Option<gen::{tok}> {{
        if self.inner.i < self.inner.kinds.len() {{
            return self.inner.next();
        }}
        self.inner.total.set(self.inner.total.get() + 1);
        let p = self.inner.i;
        let k = (p * 7 + self.inner.kinds.len()).checked_rem(NTERMS)?;
        if p > self.inner.kinds.len() + 100_000 {{
            // (a parser that runs into the tail is wrong already; do not let it run for ever)
            return None;
        }}
        self.inner.i += 1;
        self.inner.some.set(self.inner.some.get() + 1);
        Some(mk(k, p, self.inner.scheme))
    }}
    fn size_hint(&self) -> (usize, Option<usize>) {{
        (usize::MAX, None)
    }}
}}

/// A source that itself calls the emitted `parse` (on the same token kinds) while the outer `parse` is
/// waiting for a token: a lexer that parses an interpolated fragment with the same parser.  `parse` must
/// be re-entrant: both calls see the same input and must give the same answer.
struct Reentrant {{
    inner: It,
    at: usize,
    done: bool,
    nested: Rc<std::cell::RefCell<String>>,
}}

impl Iterator for Reentrant {{
    type Item = gen::{tok};
    fn next(&mut self) -> Option<gen::{tok}> {{
        if !self.done && self.inner.i >= self.at {{
            self.done = true;
            let some = Rc::new(Cell::new(0usize));
            let total = Rc::new(Cell::new(0usize));
            let r = gen::parse(It {{ kinds: self.inner.kinds.clone(), i: 0, scheme: self.inner.scheme, some: some.clone(), total, late: 0, ended: false }});
            *self.nested.borrow_mut() = render(r, some.get().to_string());
        }}
        self.inner.next()
    }}
}}

fn render(r: Result<gen::{start}, Option<gen::{tok}>>, pulls: String) -> String {{
    match r {{
        Ok(t) => format!("OK {{}} {{:?}}", pulls, t),
        Err(Some(t)) => format!("ES {{}} {{:?}}", pulls, t),
        Err(None) => format!("EN {{}}", pulls),
    }}
}}

fn run_line(line: &str) -> String {{
    let mut parts = line.split_whitespace();
    let flavour: usize = parts.next().unwrap().parse().unwrap();
    let scheme: usize = parts.next().unwrap().parse().unwrap();
    let kinds: Vec<usize> = parts.map(|x| x.parse().unwrap()).collect();
    let some = Rc::new(Cell::new(0usize));
    let total = Rc::new(Cell::new(0usize));
    let (s2, t2) = (some.clone(), total.clone());
    if flavour == 6 || flavour == 7 {{
        // 6: the same input parsed by four threads at the same time (the emitted statics are shared);
        // 7: the same input parsed 70 000 times in a row on this thread.  All answers must be one answer.
        let one = move |kinds: Vec<usize>| -> String {{
            let some = Rc::new(Cell::new(0usize));
            let total = Rc::new(Cell::new(0usize));
            let r = std::panic::catch_unwind(std::panic::AssertUnwindSafe(|| gen::parse(It {{ kinds, i: 0, scheme, some: some.clone(), total, late: 0, ended: false }})));
            match r {{
                Ok(r) => render(r, some.get().to_string()),
                Err(_) => "PANIC in one of the calls".to_string(),
            }}
        }};
        let first = one(kinds.clone());
        if flavour == 6 {{
            let handles: Vec<_> = (0..3)
                .map(|_| {{
                    let k = kinds.clone();
                    std::thread::Builder::new().stack_size(256 << 20).spawn(move || one(k)).unwrap()
                }})
                .collect();
            let mine = one(kinds.clone());
            for h in handles {{
                let other = h.join().unwrap_or_else(|_| "PANIC in a parsing thread".to_string());
                if other != first {{
                    return format!("DIFF concurrent calls disagree: {{}} || {{}}", first, other);
                }}
            }}
            if mine != first {{
                return format!("DIFF concurrent calls disagree: {{}} || {{}}", first, mine);
            }}
        }} else {{
            for n in 2..=70_000usize {{
                let again = one(kinds.clone());
                if again != first {{
                    return format!("DIFF call number {{}} disagrees with the first: {{}} || {{}}", n, first, again);
                }}
            }}
        }}
        return first;
    }}
    let nested = Rc::new(std::cell::RefCell::new(String::new()));
    let nested2 = nested.clone();
    let r = std::panic::catch_unwind(std::panic::AssertUnwindSafe(move || -> Result<gen::{start}, Option<gen::{tok}>> {{
        match flavour {{
            0 => gen::parse(It {{ kinds, i: 0, scheme, some: s2, total: t2, late: 0, ended: false }}),
            3 => gen::parse(It {{ kinds, i: 0, scheme, some: s2, total: t2, late: 40, ended: false }}),
            5 => {{
                let at = kinds.len() / 2;
                gen::parse(Reentrant {{ inner: It {{ kinds, i: 0, scheme, some: s2, total: t2, late: 0, ended: false }}, at, done: false, nested: nested2 }})
            }}
            4 => gen::parse(Endless {{ inner: It {{ kinds, i: 0, scheme, some: s2, total: t2, late: 0, ended: false }} }}),
            1 => {{
                let v: Vec<gen::{tok}> = kinds.iter().enumerate().map(|(p, k)| mk(*k, p, scheme)).collect();
                s2.set(usize::MAX);
                gen::parse(v)
            }}
            _ => {{
                let mut i = 0usize;
                gen::parse(std::iter::from_fn(move || {{
                    t2.set(t2.get() + 1);
                    if i >= kinds.len() {{
                        return None;
                    }}
                    let p = i;
                    i += 1;
                    s2.set(s2.get() + 1);
                    Some(mk(kinds[p], p, scheme))
                }}))
            }}
        }}
    }}));
    let pulls = if some.get() == usize::MAX {{ "-".to_string() }} else {{ some.get().to_string() }};
    match r {{
        Err(e) => {{
            let msg = if let Some(s) = e.downcast_ref::<&str>() {{ s.to_string() }} else if let Some(s) = e.downcast_ref::<String>() {{ s.clone() }} else {{ "?".to_string() }};
            format!("PANIC {{}}", msg.replace('\n', " "))
        }}
        Ok(r) => {{
            let outer = render(r, pulls);
            if flavour == 5 {{
                format!("{{}} ||NESTED|| {{}}", outer, nested.borrow())
            }} else {{
                outer
            }}
        }}
    }}
}}

fn main() {{
    std::panic::set_hook(Box::new(|_| {{}}));
    // Dropping / printing a deep Box tree recurses; that is the host's business, not the parser's.
    let h = std::thread::Builder::new().stack_size(1 << 30).spawn(|| {{
        let stdin = std::io::stdin();
        let stdout = std::io::stdout();
        for line in stdin.lock().lines() {{
            let line = line.unwrap();
            let out = run_line(&line);
            let mut o = stdout.lock();
            writeln!(o, "{{}}", out).unwrap();
            o.flush().unwrap();
        }}
    }}).unwrap();
    h.join().unwrap();
}}
"#
    )
}

#[derive(Debug)]
pub enum CompileResult {
    Ok(PathBuf),
    /// rustc's stderr
    Failed(String),
    /// rustc could not be run
    Unavailable(String),
}

/// Compile `gen.rs` (the emitted text, verbatim) + `main.rs` in `dir`.
pub fn compile(dir: &Path, emitted: &str, main_rs: &str, metadata_only: bool) -> CompileResult {
    compile_with(dir, emitted, main_rs, metadata_only, false)
}

/// `release_like`: the emitted module compiled the way `cargo build --release` compiles it - debug
/// assertions and overflow checks OFF (kept at opt-level 0: only the semantics matter here).
pub fn compile_with(dir: &Path, emitted: &str, main_rs: &str, metadata_only: bool, release_like: bool) -> CompileResult {
    if let Err(e) = std::fs::create_dir_all(dir) {
        return CompileResult::Unavailable(format!("mkdir: {e}"));
    }
    if let Err(e) = std::fs::write(dir.join("gen.rs"), emitted).and_then(|_| std::fs::write(dir.join("main.rs"), main_rs)) {
        return CompileResult::Unavailable(format!("write: {e}"));
    }
    let mut cmd = Command::new("rustc");
    cmd.current_dir(dir)
        .arg("--edition")
        .arg("2021")
        .arg("-A")
        .arg("warnings")
        .arg("-C")
        .arg("debuginfo=0")
        .arg("--error-format=short");
    if metadata_only {
        cmd.arg("--emit=metadata").arg("--crate-type=lib").arg("-o").arg("m.rmeta");
    } else {
        cmd.arg("-C").arg("opt-level=0").arg("-o").arg("m");
        if release_like {
            cmd.arg("-C").arg("debug-assertions=off").arg("-C").arg("overflow-checks=off");
        }
    }
    cmd.arg("main.rs").stdin(Stdio::null()).stdout(Stdio::piped()).stderr(Stdio::piped());
    crate::util::limit_cpu_and_memory(&mut cmd, 300, 8 << 30);
    match cmd.output() {
        Err(e) => CompileResult::Unavailable(format!("cannot run rustc: {e}")),
        Ok(o) => {
            if o.status.success() {
                CompileResult::Ok(dir.join("m"))
            } else {
                let stderr = String::from_utf8_lossy(&o.stderr).to_string();
                if o.status.code().is_none() || stderr.contains("internal compiler error") {
                    return CompileResult::Unavailable(format!("rustc died: {:?} {}", o.status, crate::util::truncate(&stderr, 400)));
                }
                CompileResult::Failed(stderr)
            }
        }
    }
}

#[derive(Debug)]
pub struct RunResult {
    pub lines: Vec<String>,
    /// None: exited normally after answering every input.
    pub death: Option<String>,
}

pub fn run_inputs(bin: &Path, inputs: &[String], cpu_s: u64) -> Result<RunResult, String> {
    let mut cmd = Command::new(bin);
    cmd.stdin(Stdio::piped()).stdout(Stdio::piped()).stderr(Stdio::piped());
    crate::util::limit_cpu_and_memory(&mut cmd, cpu_s, 8 << 30);
    let mut child = cmd.spawn().map_err(|e| format!("cannot run the compiled parser: {e}"))?;
    let mut stdin = child.stdin.take().unwrap();
    let data = inputs.join("\n") + "\n";
    let writer = std::thread::spawn(move || {
        let _ = stdin.write_all(data.as_bytes());
    });
    let out = child.wait_with_output().map_err(|e| format!("wait: {e}"))?;
    let _ = writer.join();
    let text = String::from_utf8_lossy(&out.stdout);
    let lines: Vec<String> = text.lines().map(|l| l.to_string()).collect();
    let death = if out.status.success() && lines.len() == inputs.len() {
        None
    } else {
        use std::os::unix::process::ExitStatusExt;
        let err = String::from_utf8_lossy(&out.stderr);
        Some(format!(
            "status {:?} signal {:?} after {} of {} answers; stderr: {}",
            out.status.code(),
            out.status.signal(),
            lines.len(),
            inputs.len(),
            crate::util::truncate(&err, 300)
        ))
    };
    Ok(RunResult { lines, death })
}

/// Error codes (`E0599` ...) in rustc's short diagnostics, first first.
pub fn error_codes(stderr: &str) -> Vec<String> {
    let mut out = vec![];
    for line in stderr.lines() {
        if let Some(i) = line.find("error[E") {
            let code = &line[i + 6..];
            if let Some(j) = code.find(']') {
                out.push(code[..j].to_string());
            }
        } else if line.contains(": error:") || line.starts_with("error:") {
            out.push("error".to_string());
        }
    }
    out
}
